"""nixmc - bounded-exhaustive explorers (model checking family) for nix-manipulator.

See /verif/DESIGN.md.  Everything here observes the library from outside; the
oracles read the *tree-sitter CST of texts*, never the library's own AST.
"""
