"""Runner plumbing: repo binding, worker pool, known findings, evidence, replays."""
from __future__ import annotations

import dataclasses
import hashlib
import json
import multiprocessing as mp
import os
import sys
import time
from typing import Any, Callable, Iterable

VERIF = os.path.dirname(os.path.dirname(os.path.abspath(__file__)))
REPO = os.environ.get("NIXMC_REPO", "/repo")
WORKERS = int(os.environ.get("NIXMC_WORKERS", "16"))
OUT = os.environ.get("NIXMC_OUT", VERIF)  # evidence/ and replays/ go here (mutation runs use a scratch dir)
GUARD = "NIMA_VERIF"


def bind_repo() -> str:
    """Make sure `nix_manipulator` is imported from the tree under test."""
    if REPO not in sys.path[:2]:
        sys.path.insert(0, REPO)
    for name in list(sys.modules):
        if name == "nix_manipulator" or name.startswith("nix_manipulator."):
            mod = sys.modules[name]
            f = getattr(mod, "__file__", "") or ""
            if f and not os.path.abspath(f).startswith(os.path.abspath(REPO) + os.sep):
                raise RuntimeError(f"nix_manipulator already imported from {f}, wanted {REPO}")
    import nix_manipulator  # noqa

    f = os.path.abspath(nix_manipulator.__file__)
    if not f.startswith(os.path.abspath(REPO) + os.sep):
        raise RuntimeError(f"nix_manipulator imported from {f}, wanted {REPO}")
    return f


def seed() -> int:
    try:
        return int(os.environ.get("VERIF_SEED", "0"))
    except ValueError:
        return 0


# --------------------------------------------------------------------------- pool

_POOL_FUNC: Callable | None = None


def _pool_init(initfunc, initargs):
    bind_repo()
    sys.setrecursionlimit(10000)
    if initfunc is not None:
        initfunc(*initargs)


def pmap(func: Callable, items: list, *, chunksize: int = 1, init: Callable | None = None, initargs: tuple = (), workers: int | None = None) -> list:
    """Deterministic parallel map (results in input order)."""
    workers = workers or WORKERS
    if workers <= 1 or len(items) <= 1:
        if init is not None:
            init(*initargs)
        return [func(x) for x in items]
    ctx = mp.get_context("fork")
    with ctx.Pool(workers, initializer=_pool_init, initargs=(init, initargs)) as pool:
        return pool.map(func, items, chunksize=chunksize)


def rotate(items: list, k: int) -> list:
    if not items:
        return items
    k %= len(items)
    return items[k:] + items[:k]


# --------------------------------------------------------------------------- findings

@dataclasses.dataclass
class Failure:
    """One (minimal) failing case."""

    prop: str
    sig: str  # stable signature: class + case; identifies the case in known_findings.json
    cls: str
    case: dict  # everything needed to replay on the plain library
    detail: str = ""
    group: str = ""  # triage hint
    raw_count: int = 1  # how many raw failing cases reduce to this one


class Known:
    def __init__(self, path: str | None = None):
        self.path = path or os.path.join(VERIF, "known_findings.json")
        self.by_sig: dict[tuple[str, str], dict] = {}
        self.findings: list[dict] = []
        self.fixed: list[dict] = []
        if os.path.exists(self.path):
            data = json.load(open(self.path))
            self.findings = data.get("findings", [])
            self.fixed = data.get("fixed", [])
            for f in self.findings:
                for s in f.get("cases", []):
                    self.by_sig[(f["property"], s)] = f
        self.rules = [f for f in self.findings if f.get("rule")]

    def lookup(self, prop: str, sig: str, failure: "Failure | None" = None):
        """A failure is attributed to a finding if its signature is listed under it, or - for the few
        findings whose trigger is an exact syntactic condition of the input - if the finding's rule
        matches (rule = {"text_regex": ..., "cls_regex": ...}, both optional, applied to the
        failing input text and the discrepancy class)."""
        k = self.by_sig.get((prop, sig))
        if k is not None or failure is None:
            return k
        import re

        text = failure.case.get("text", "") if isinstance(failure.case, dict) else ""
        for f in self.rules:
            if f["property"] != prop:
                continue
            r = f["rule"]
            if "text_regex" in r and not re.search(r["text_regex"], text, re.S):
                continue
            if "cls_regex" in r and not re.search(r["cls_regex"], failure.cls):
                continue
            return f
        return None


# --------------------------------------------------------------------------- reports

@dataclasses.dataclass
class Report:
    prop: str
    level: str
    coverage: dict
    failures: list[Failure]
    assumptions: list[str]
    notes: list[str] = dataclasses.field(default_factory=list)


def sha(s: str) -> str:
    return hashlib.sha256(s.encode("utf-8", "replace")).hexdigest()[:16]


def write_replay(f: Failure) -> str:
    d = os.path.join(OUT, "replays", f.prop)
    os.makedirs(d, exist_ok=True)
    path = os.path.join(d, sha(f.sig) + ".json")
    json.dump({"property": f.prop, "sig": f.sig, "class": f.cls, "detail": f.detail, "case": f.case}, open(path, "w"), indent=1, ensure_ascii=False)
    return path


def _say(line: str) -> None:
    """print that survives a reader closing the pipe early (the exit code still tells the verdict)"""
    try:
        print(line, flush=True)
    except BrokenPipeError:
        try:
            sys.stdout = open(os.devnull, "w")
        except Exception:
            pass


def finish(report: Report, tier: str, t0: float, collect: str | None = None) -> int:
    """Match failures against known findings, write evidence, print verdict lines. Returns exit code."""
    known = Known()
    by_finding: dict[str, list[Failure]] = {}
    unknown: list[Failure] = []
    for f in report.failures:
        k = known.lookup(report.prop, f.sig, f)
        if k is None:
            unknown.append(f)
        else:
            by_finding.setdefault(k["id"], []).append(f)
    # evidence first: it must exist whatever happens to stdout
    cov = dict(report.coverage)
    cov.setdefault("known_findings_observed", sorted(by_finding))
    cov.setdefault("minimal_failures_total", len(report.failures))
    ev = {
        "property_id": report.prop,
        "tier": tier,
        "seed": seed(),
        "level": report.level,
        "coverage": cov,
        "assumptions": report.assumptions,
        "wall_s": round(time.time() - t0, 3),
        "violations": len(unknown),
        "repo": REPO,
    }
    os.makedirs(os.path.join(OUT, "evidence"), exist_ok=True)
    out = os.path.join(OUT, "evidence", report.prop + ".json")
    tmp = out + ".tmp"
    json.dump(ev, open(tmp, "w"), indent=1, ensure_ascii=False, default=str)
    os.replace(tmp, out)
    for fid in sorted(by_finding):
        k = next(x for x in known.findings if x["id"] == fid)
        fs = by_finding[fid]
        raw = sum(x.raw_count for x in fs)
        _say(f"KNOWN-FINDING: property={report.prop} {fid} {k.get('summary','')} ({len(fs)} minimal cases, {raw} raw)")
    if collect:
        json.dump(
            [dataclasses.asdict(f) for f in unknown], open(collect, "w"), indent=1, ensure_ascii=False
        )
        json.dump({"property": report.prop, "observed": sorted(f.sig for fs in by_finding.values() for f in fs)}, open(collect + ".observed", "w"), ensure_ascii=False)
        _say(f"collected {len(unknown)} unlisted failures into {collect}")
    shown = 0
    for f in unknown:
        path = write_replay(f)
        if shown < 40:
            _say(f"VIOLATION property={report.prop} replay={path}")
            _say(f"  class={f.cls} {f.detail[:300]}")
        shown += 1
    if shown > 40:
        _say(f"... {shown - 40} more violations (replay files written)")
    for n in report.notes:
        _say("note: " + str(n))
    status = "FAIL" if unknown else "ok"
    _say(f"[{report.prop} {tier}] {status}: " + ", ".join(f"{k}={v}" for k, v in cov.items() if isinstance(v, (int, float, bool))) + f" wall={ev['wall_s']}s")
    return 1 if unknown else 0


def pick_samples(items: list, k: int = 5) -> list:
    if not items:
        return []
    s = seed()
    n = len(items)
    idx = sorted({(s * 7919 + i * (n // k + 1)) % n for i in range(k)})
    return [items[i] for i in idx]
