"""E2 - explicit-state exploration of edit histories on real documents.

A state is (initial document, operation history); it is rebuilt by replaying the history on a
fresh parse (live objects do not copy).  States are merged on (rebuilt text, structural snapshot).
Transitions are real calls of nix_manipulator.cli.manipulations.set_value / remove_value.
"""
from __future__ import annotations

import collections
import dataclasses
import hashlib
import itertools

from . import core, editmodel as em, obs

# --------------------------------------------------------------------------- documents

BODIES = {
    "inline": "{ a = 1; b = 2; }",
    "ml": "{\n  a = 1; # ca\n\n  # cb\n  b = 2;\n  d = 3;\n}",
    "attrpath": "{\n  a.b = 1;\n  a.c = 2;\n  d = 3;\n}",
    "nested": "{\n  a = {\n    b = 1;\n  };\n  d = 3;\n}",
    "empty": "{ }",
    "deep": "{\n  a.b.c = 1;\n  d = 3;\n}",
    "rec": "rec {\n  a = 1;\n  b = 2;\n}",
    "inherit": "{\n  inherit q;\n  a = 1;\n}",
    "mixed": "{\n  a.b = 1;\n  a = {\n    c = 2;\n  };\n  d = 3;\n}",
    # forced collisions: equal-looking attrpath leaves; explicit set before / between attrpath members
    "twins": "{\n  d = 3;\n  s.a.e = 1;\n  s.b.e = 1;\n  b = 2;\n}",
    "mixed_rev": "{\n  a = {\n    c = 2;\n  };\n  a.b = 1;\n  d = 3;\n}",
    "mixed3": "{\n  a.b.c = 1;\n  a.b = {\n    d = 2;\n  };\n  a.b.e = 3;\n}",
    "deep4": "{\n  a.b.c.d = 1;\n  a.b.c.e = 2;\n  b = 2;\n}",  # four-segment attrpaths sharing a three-segment prefix
    "split": "{\n  a.b = 1;\n  d = 3;\n  a.c = 2;\n}",  # an attrpath family interrupted by a plain binding
    "ml_inline_nested": "{\n  a = { b = 1; };\n  d = 3;\n}",  # one-line nested set inside a multi-line set
}
WRAPPERS = {
    "lamf": "{ p }:\n%s",
    "lam": "p:\n%s",
    "let1": "let\n  u = 1;\nin\n%s",
    "let2": "let\n  u = 1;\nin\nlet\n  u = 2;\n  w = 3;\nin\n%s",
    "with": "with p;\n%s",
    "assert": "assert c;\n%s",
    "paren": "(%s)",
    "call": "f %s",
    "letap": "let\n  u.k = 1;\n  w = 3;\nin\n%s",  # a let layer holding an attrpath binding
    "letset": "let\n  u = {\n    k = 1;\n  };\nin\n%s",  # a let layer whose binding is a set
    "let2c": "let\n  u = 1;\nin\n# between\nlet\n  u = 2;\n  w = 3;\nin\n# before body\n%s",  # trivia between layers
    "letinh": "let\n  inherit (p) l;\n  u = 1;\nin\n%s",  # a let layer holding an inherit next to a binding
    "letinh0": "let\n  inherit (p) l;\nin\n%s",  # a let layer made of an inherit only
    "lamc": "p: %s",  # overlay style: the body starts on the colon line
}


BODY_SIMPLER = {
    "inline": ["empty"],
    "ml": ["inline", "empty"],
    "attrpath": ["inline", "empty"],
    "nested": ["inline", "empty"],
    "deep": ["attrpath", "inline", "empty"],
    "rec": ["inline", "empty"],
    "inherit": ["inline", "empty"],
    "mixed": ["attrpath", "nested", "inline", "empty"],
    "twins": ["attrpath", "inline", "empty"],
    "mixed_rev": ["mixed", "attrpath", "nested", "inline", "empty"],
    "mixed3": ["mixed", "deep", "attrpath", "inline", "empty"],
    "deep4": ["deep", "attrpath", "inline", "empty"],
    "split": ["attrpath", "inline", "empty"],
    "ml_inline_nested": ["nested", "inline", "empty"],
}
WRAPPER_SIMPLER = {"let2": ["let1"], "lamf": ["lam"], "lamc": ["lam"], "letap": ["let1"], "let2c": ["let2"], "letset": ["let1"], "letinh": ["let1", "letinh0"]}


def op_reductions(op):
    """Simpler operations: the plainest value."""
    if op[0] == "set" and op[2] != "9":
        yield ("set", op[1], "9")
    if op[1] in ("@a", "@@a"):  # a scoped name that also exists in the body -> a scoped name that exists nowhere
        yield (op[0], op[1].replace("a", "z"), op[2])


@dataclasses.dataclass(frozen=True)
class Doc:
    body: str
    stack: tuple  # wrapper names, outermost first
    layout: str  # 'canon' | 'oneline'

    def text(self) -> str:
        t = BODIES[self.body]
        for w in reversed(self.stack):
            t = WRAPPERS[w] % t
        if self.layout == "oneline":
            # drop line comments (they would swallow code), collapse whitespace
            lines = [ln.split("#")[0] for ln in t.split("\n")]
            return " ".join(" ".join(lines).split())
        return t + "\n"

    def name(self) -> str:
        return "/".join(self.stack + (self.body,)) + ":" + self.layout

    def reductions(self):
        for i in range(len(self.stack)):
            yield Doc(self.body, self.stack[:i] + self.stack[i + 1 :], self.layout)
        if self.layout != "canon":
            yield Doc(self.body, self.stack, "canon")
        for b in BODY_SIMPLER.get(self.body, ()):
            yield Doc(b, self.stack, self.layout)
        for i, w in enumerate(self.stack):
            for w2 in WRAPPER_SIMPLER.get(w, ()):
                yield Doc(self.body, self.stack[:i] + (w2,) + self.stack[i + 1 :], self.layout)


def docs(max_stack: int, bodies=None, wrappers=None, layouts=("canon", "oneline")):
    bodies = list(bodies or BODIES)
    wrappers = list(wrappers or WRAPPERS)
    out = []
    for b in bodies:
        for n in range(max_stack + 1):
            for st in itertools.product(wrappers, repeat=n):
                for lay in layouts:
                    out.append(Doc(b, tuple(st), lay))
    return out


# --------------------------------------------------------------------------- operations

PATHS = [
    "a", "b", "z", "a.b", "a.c", "a.z", "d", "d.e", "y.x.w", '"q.r"', "a.b.c", '"a"', "q", "s.a.e", "s.b.e", "a.b.e", "a.b.d", "a.b.c.e", "a.b.c.d", "a.m.n", "q.r", "@u.m.n",
    "@u", "@z", "@@u", "@@@u", "@w", "@u.k", "@@z",
    "", "a..b", "a.", '"x', "@", "1x", 'a"b"', '"a\\',
]
VALUES = ["9", '"s"', "{ k = 1; }", "[ 1 2 ]", "u", "", "1;", "{", "# c\n", "1 # c", "# c\n9"]
SMALL_PATHS = ["a", "b", "d", "z", "a.b", "a.c", "a.z", "d.e", "@u", "@z", "@@u", "", "a."]
SMALL_VALUES = ["9", "{ k = 1; }", "{"]


def ops(paths=PATHS, values=VALUES):
    out = [("set", p, v) for p in paths for v in values]
    out += [("rm", p, None) for p in paths]
    return out


def show_op(op) -> str:
    return f"set {op[1]!r} {op[2]!r}" if op[0] == "set" else f"rm {op[1]!r}"


# --------------------------------------------------------------------------- running the real thing

def fresh(text: str):
    from nix_manipulator import parse

    return parse(text)


def apply_op(src, op):
    """-> ('ok', text) | ('err', exception type name, message)"""
    from nix_manipulator.cli.manipulations import remove_value, set_value

    try:
        if op[0] == "set":
            return ("ok", set_value(src, op[1], op[2]))
        return ("ok", remove_value(src, op[1]))
    except BaseException as e:  # noqa
        if isinstance(e, (KeyboardInterrupt, SystemExit)):
            raise
        return ("err", type(e).__name__, str(e)[:200])


def replay(doc_text: str, hist):
    """Fresh object with the history applied; -> (src, [outcomes])"""
    src = fresh(doc_text)
    outs = []
    for op in hist:
        outs.append(apply_op(src, op))
    return src, outs


def state_key(src) -> tuple[str, str]:
    try:
        text = src.rebuild()
    except Exception as e:  # pragma: no cover
        text = "<rebuild raised %s>" % type(e).__name__
    snap = hashlib.blake2b(repr(obs.snapshot(src)).encode("utf-8", "replace"), digest_size=8).hexdigest()
    return text, snap


# --------------------------------------------------------------------------- oracles on one transition

def _seq(text: str):
    """Token sequence incl. comments: [('T'|'C', text, start, end)]"""
    err, leaves = obs.lex(text)
    return [("C" if l.type == "comment" else "T", l.text, l.start, l.end) for l in leaves]


def _diff(a, b):
    n = min(len(a), len(b))
    p = 0
    while p < n and a[p] == b[p]:
        p += 1
    q = 0
    while q < n - p and a[len(a) - 1 - q] == b[len(b) - 1 - q]:
        q += 1
    return p, len(a) - q, len(b) - q


def _toks(text: str):
    err, leaves = obs.lex(text)
    return [l.text for l in leaves if l.type != "comment"]


def oracle_c05(s_text, view_s: obs.AttrView, op, outcome, expectation):
    """Compare the real outcome with the three-valued model. -> list[(cls, detail)]"""
    kind, path, value = op
    out = []
    if expectation[0] == "unspec":
        if outcome[0] == "ok":
            v = obs.attr_tree(outcome[1])
            if v.status in ("invalid", "dup"):
                out.append(("output-" + v.status, f"unspecified case but output is {v.status}: {outcome[1]!r}"))
        return out
    if expectation[0] == "ok":
        if outcome[0] == "err":
            out.append(("refused", f"model: must succeed; raised {outcome[1]}: {outcome[2]}"))
            return out
        r = outcome[1]
        v = obs.attr_tree(r)
        if v.status != "ok":
            out.append(("output-" + v.status, f"output {r!r} ({v.detail})"))
            return out
        why = em.trees_equal(expectation[1], v.tree)
        if why:
            out.append(("wrong-effect", f"body: {why}; output {r!r}"))
        if len(expectation[2]) != len(v.layers):
            out.append(("wrong-layers", f"expected {len(expectation[2])} let layers, got {len(v.layers)}; output {r!r}"))
        else:
            for i, (ml, gl) in enumerate(zip(expectation[2], v.layers)):
                why = em.trees_equal(ml, gl)
                if why:
                    out.append(("wrong-layer-effect", f"layer {i} (outermost first): {why}; output {r!r}"))
                    break
        return out
    # model: must be refused
    if outcome[0] == "ok":
        r = outcome[1]
        out.append(("accepted", f"model: must be refused ({expectation[1]}); output {r!r}"))
    return out


def _attached_comment_ok(s_text: str, region: tuple[int, int], bind: tuple[int, int]) -> bool:
    """Every comment inside the deleted region is on the binding's own lines or on the
    comment-only lines directly above it (no blank line in between)."""
    b = s_text.encode("utf-8")
    err, leaves = obs.lex(s_text)
    comments = [l for l in leaves if l.type == "comment" and region[0] <= l.start and l.end <= region[1]]
    if not comments:
        return True

    def line_of(pos):
        return b.count(b"\n", 0, pos)

    b0, b1 = bind
    first, last = line_of(b0), line_of(b1 - 1 if b1 > b0 else b0)
    lines = b.split(b"\n")
    ok_lines = set(range(first, last + 1))
    ln = first - 1
    while ln >= 0 and lines[ln].strip().startswith((b"#", b"/*")) :
        ok_lines.add(ln)
        ln -= 1
    return all(line_of(c.start) in ok_lines and line_of(c.end - 1) in ok_lines or line_of(c.start) in ok_lines for c in comments)


def _find_block(seq, other, cands, p):
    """Is `seq` == `other` with one candidate block inserted?  (rotation-robust)  -> bool"""
    for X in cands:
        n = len(X)
        if len(seq) - n != len(other):
            continue
        for i in range(max(0, p - n), min(p, len(other)) + 1):
            if seq[i : i + n] == X and seq[:i] == other[:i] and seq[i + n :] == other[i:]:
                return True
    return False


def oracle_c04(s_text, view_s: obs.AttrView, op, outcome, expectation, canonical: bool):
    """Locality of a successful edit whose effect the model defines.

    Token level (always): the code-token sequence of the output is the input's with exactly the
    addressed value replaced / one binding inserted / one binding removed; every comment outside
    the addressed extent is still there; no comment appears from nowhere.
    Byte level (canonical documents): the same statement on bytes.
    """
    if outcome[0] != "ok" or expectation[0] != "ok" or view_s.status != "ok":
        return []
    kind, path, value = op
    r = outcome[1]
    out = []
    try:
        d, segs = em.parse_path(path)
    except em.Malformed:
        return []
    names = tuple(s for s, _ in segs)
    sa, sb = _seq(s_text), _seq(r)
    ca = [x for x in sa if x[0] == "T"]
    cb = [x for x in sb if x[0] == "T"]
    ta = [t for _, t, _, _ in ca]
    tb = [t for _, t, _, _ in cb]
    coma = [x for x in sa if x[0] == "C"]
    comb = collections.Counter(t for k, t, _, _ in sb if k == "C")
    p, ea, eb = _diff(ta, tb)
    vt = _toks(value) if kind == "set" else None
    vcomments = collections.Counter(t for k, t, _, _ in _seq(value) if k == "C") if kind == "set" else collections.Counter()
    if d == 0:
        ext = view_s.extents
    else:
        idx = len(view_s.layers) - d
        ext = view_s.layer_extents[idx] if 0 <= idx < len(view_s.layers) else {}
    exists = names in ext
    invented = comb - collections.Counter(t for _, t, _, _ in coma) - vcomments
    if invented:
        out.append(("comment-invented", f"comments {sorted(invented)} appear from nowhere; output {r!r}"))
    lost = collections.Counter(t for _, t, _, _ in coma) - comb
    lost_items = []
    if lost:
        need = dict(lost)
        for c in coma:
            if need.get(c[1], 0) > 0:
                need[c[1]] -= 1
                lost_items.append(c)
    if kind == "set" and exists:
        v0, v1 = ext[names][2], ext[names][3]
        i0 = sum(1 for x in ca if x[2] < v0)
        i1 = sum(1 for x in ca if x[3] <= v1)
        tail = len(ta) - i1
        if not (ta[:i0] == tb[:i0] and (tail == 0 or ta[i1:] == tb[len(tb) - tail :]) and len(tb) >= i0 + tail):
            out.append(("touched-outside-value", f"tokens changed outside the addressed value: {ta[p:ea]} -> {tb[p:eb]}; output {r!r}"))
        bad = [c[1] for c in lost_items if not (v0 <= c[2] and c[3] <= v1)]
        if bad:
            out.append(("neighbour-comment-removed", f"comments {bad} dropped; output {r!r}"))
        if canonical and not out:
            bp, bea, beb = _diff(s_text, r)
            if bea > bp and not (_char_to_byte(s_text, bp) >= v0 and _char_to_byte(s_text, bea) <= v1):
                out.append(("bytes-outside-value", f"bytes changed outside the value: {s_text[bp:bea]!r} -> {r[bp:beb]!r}"))
    elif kind == "set":
        cands = _insert_token_candidates(names, vt, d, view_s)
        if not _find_block(tb, ta, cands, p):
            out.append(("insert-unexpected-tokens", f"token diff {ta[p:ea]} -> {tb[p:eb]}, expected a pure insertion of one of {cands[:3]}; output {r!r}"))
        if lost_items:
            out.append(("neighbour-comment-removed", f"comments {[c[1] for c in lost_items]} dropped by an insertion; output {r!r}"))
        parent = view_s.tree if d == 0 else (view_s.layers[len(view_s.layers) - d] if 0 < d <= len(view_s.layers) else {})
        for nm in names[:-1]:
            ent = parent.get(nm)
            if not (ent and ent[0] == "set"):
                break  # the rest of the path is created inside `parent`
            parent = ent[1]
        into_empty = len(parent) == 0  # an empty set has no layout to preserve
        if canonical and not out and not into_empty:
            bp, bea, beb = _diff(s_text, r)
            if bea != bp:
                out.append(("bytes-rewritten-on-insert", f"{s_text[bp:bea]!r} -> {r[bp:beb]!r}"))
    else:
        if not exists:
            return out
        b0, b1 = ext[names][0], ext[names][1]
        want = _toks(s_text.encode("utf-8")[b0:b1].decode("utf-8"))
        cands = [want]
        if d > 0:
            cands.append(["let"] + want + ["in"])
        if not _find_block(ta, tb, cands, p):
            out.append(("remove-unexpected-tokens", f"token diff {ta[p:ea]} -> {tb[p:eb]}, expected a pure deletion of one of {cands}; output {r!r}"))
        elif lost_items:
            region = (min(c[2] for c in lost_items), max(c[3] for c in lost_items))
            if not _attached_comment_ok(s_text, region, (b0, b1)):
                out.append(("neighbour-comment-removed", f"comments {[c[1] for c in lost_items]} dropped with the binding; output {r!r}"))
        parent = view_s.tree if d == 0 else (view_s.layers[len(view_s.layers) - d] if 0 < d <= len(view_s.layers) else {})
        for nm in names[:-1]:
            ent = parent.get(nm)
            parent = ent[1] if ent and ent[0] == "set" else {}
        becomes_empty = len(parent) <= 1  # an emptied set may be re-laid out as `{ }`
        if canonical and not out and not becomes_empty:
            bp, bea, beb = _diff(s_text, r)
            if beb != bp:
                out.append(("bytes-rewritten-on-remove", f"{s_text[bp:bea]!r} -> {r[bp:beb]!r}"))
    return out


def _char_to_byte(s: str, i: int) -> int:
    return len(s[:i].encode("utf-8"))


def _name_tokens(n: str):
    if em.IDENT.fullmatch(n):
        return [n]
    return _toks('"' + n.replace("\\", "\\\\").replace('"', '\\"').replace("\n", "\\n").replace("\r", "\\r").replace("\t", "\\t").replace("${", "\\${") + '"')


def _insert_token_candidates(names, vt, d, view_s):
    """Token sequences a single new binding may take."""
    tree = view_s.tree if d == 0 else None
    cands = []
    # how many leading segments already exist?
    cur = None
    if d == 0:
        cur = view_s.tree
    else:
        idx = len(view_s.layers) - d
        cur = view_s.layers[idx] if 0 <= idx < len(view_s.layers) else {}
    k = 0
    forms = []
    while k < len(names) - 1 and names[k] in cur and cur[names[k]][0] == "set":
        forms.append(cur[names[k]][2])
        cur = cur[names[k]][1]
        k += 1
    rest = names[k:]
    # explicit nesting of the missing tail inside the existing explicit parent
    def explicit(rest):
        if len(rest) == 1:
            return _name_tokens(rest[0]) + ["="] + vt + [";"]
        return _name_tokens(rest[0]) + ["=", "{"] + explicit(rest[1:]) + ["}", ";"]

    def dotted(ns):
        out = []
        for i, n in enumerate(ns):
            if i:
                out.append(".")
            out += _name_tokens(n)
        return out + ["="] + vt + [";"]

    cands.append(explicit(rest))
    cands.append(dotted(rest))
    # attrpath family: the full dotted path (or the part below the explicit prefix)
    for j in range(0, k + 1):
        cands.append(dotted(names[j:]))
    if d > 0 and not view_s.layers and d == 1:
        cands = [["let"] + c + ["in"] for c in cands] + cands
    return cands


def oracle_c06(outcome):
    if outcome[0] != "ok":
        return []
    r = outcome[1]
    from nix_manipulator import parse

    try:
        r2 = parse(r).rebuild()
    except Exception as e:
        return [("reparse-raises", f"{type(e).__name__} on emitted text {r!r}")]
    if r2 != r:
        return [("edit-output-unstable", f"emitted {r!r}; second pass {r2!r}")]
    return []


ALLOWED_EXC = ("KeyError", "ValueError", "NixSyntaxError")


def oracle_c08(doc_text, hist, op, src_before_key, src, outcome, followups):
    """After a failing call: type of the exception, state untouched, futures untouched."""
    if outcome[0] != "err":
        return []
    out = []
    if outcome[1] not in ALLOWED_EXC:
        out.append(("wrong-exception:" + outcome[1], f"{outcome[1]}: {outcome[2]}"))
    after = state_key(src)
    if after[0] != src_before_key[0]:
        out.append(("text-changed-by-failed-edit", f"before {src_before_key[0]!r} after {after[0]!r}"))
    elif after[1] != src_before_key[1]:
        out.append(("tree-changed-by-failed-edit", "rebuild text equal but structural snapshot differs"))
    if not out:
        for op2 in followups:
            live = apply_op(src, op2)
            src2, _ = replay(doc_text, hist)
            ref = apply_op(src2, op2)
            if live[:2] != ref[:2]:
                out.append(("future-differs", f"after failed {show_op(op)}: {show_op(op2)} gives {live[:2]} on the live object, {ref[:2]} without the failed call"))
                break
            # next follow-up needs a clean object again
            src, _ = replay(doc_text, hist)
            apply_op(src, op)
    return out
