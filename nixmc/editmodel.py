"""Reference model of the documented `set` / `rm` semantics (C05, C09) - boring on purpose.

State = AttrView decoded from the *text* by nixmc.obs (ordered nested dicts + let layers).
The model is three-valued: MUST_OK(tree, layers) / MUST_FAIL(reason) / UNSPEC(reason).
It never imports nix_manipulator.
"""
from __future__ import annotations

import copy
import re

from . import obs

IDENT = re.compile(r"[A-Za-z_][A-Za-z0-9_']*")
KEYWORD_VALUES = {"true", "false", "null"}


class Malformed(Exception):
    pass


class Undocumented(Malformed):
    """Shapes the documentation does not settle (text glued behind a closing quote): callers that
    judge acceptance treat them as unspecified."""


def parse_path(p: str):
    """Reference tokenizer of the documented NPath grammar -> (scope_depth, [segment names]).

    bare segment  := [A-Za-z_][A-Za-z0-9_']*      (fullmatch)
    quoted segment:= '"' (char | '\\' char)* '"'   with \\" \\\\ \\n \\r \\t decoded, other escapes kept
    path          := '@'* segment ('.' segment)*
    """
    d = 0
    while p.startswith("@"):
        d += 1
        p = p[1:]
    if p == "":
        raise Malformed("empty")
    segs = []
    i = 0
    n = len(p)
    while True:
        if i < n and p[i] == '"':
            i += 1
            buf = []
            closed = False
            while i < n:
                ch = p[i]
                if ch == "\\":
                    if i + 1 >= n:
                        raise Malformed("dangling escape")
                    nx = p[i + 1]
                    buf.append({"n": "\n", "r": "\r", "t": "\t"}.get(nx, nx if nx in '"\\' else "\\" + nx))
                    i += 2
                    continue
                if ch == '"':
                    closed = True
                    i += 1
                    break
                buf.append(ch)
                i += 1
            if not closed:
                raise Malformed("unterminated quote")
            segs.append(("".join(buf), True))
            if i < n and p[i] != ".":
                raise Undocumented("text after closing quote")
        else:
            j = i
            while j < n and p[j] not in '."':
                j += 1
            name = p[i:j]
            if j < n and p[j] == '"':
                raise Malformed("quote inside bare segment")
            if not IDENT.fullmatch(name):
                raise Malformed("bad bare segment %r" % name)
            segs.append((name, False))
            i = j
        if i >= n:
            break
        # p[i] == '.'
        i += 1
        if i >= n:
            raise Malformed("trailing dot")
    return d, segs


def value_view(v: str):
    """-> ('leaf', tokens) | ('set', subtree) | None if v is not exactly one valid expression."""
    root = obs.cst(v)
    if root.has_error:
        return None
    ch = [c for c in root.named_children if c.type != "comment"]
    if len(ch) != 1:
        return None
    node = ch[0]
    if node.type in ("attrset_expression", "rec_attrset_expression"):
        try:
            return ["set", obs.decode_set(node), "explicit"]
        except obs.Dup:
            return ["leaf", obs.node_tokens(node)]
    return ["leaf", obs.node_tokens(node)]


class Unspec(Exception):
    pass


class MustFail(Exception):
    pass


def is_reference(leaf_tokens: str) -> bool:
    return bool(IDENT.fullmatch(leaf_tokens)) and leaf_tokens not in KEYWORD_VALUES


def model_set(tree: dict, segs: list[str], val: list) -> dict:
    t = copy.deepcopy(tree)
    cur = t
    for s in segs[:-1]:
        ent = cur.get(s)
        if ent is None:
            ent = ["set", {}, "new"]
            cur[s] = ent
        elif ent[0] != "set":
            if ent[1] == "<inherit>":
                raise Unspec("path through inherited name")
            if is_reference(ent[1]):
                raise Unspec("path through a reference")
            raise MustFail("non-set on path")
        if ent[2] == "mixed":
            raise Unspec("path through a name defined both explicitly and by attrpath")
        cur = ent[1]
    k = segs[-1]
    ent = cur.get(k)
    if ent is not None:
        if ent[0] == "set" and ent[2] in ("attrpath", "mixed"):
            if len(segs) == 1:
                raise MustFail("attrpath-root overwrite")
            raise Unspec("overwrite of an attrpath-derived intermediate")
        if ent[0] == "leaf" and ent[1] == "<inherit>":
            raise Unspec("inherited name")
        if ent[0] == "leaf" and is_reference(ent[1]):
            raise Unspec("existing value is a reference (C11)")
    cur[k] = copy.deepcopy(val)
    return t


def model_rm(tree: dict, segs: list[str]) -> dict:
    t = copy.deepcopy(tree)
    cur = t
    stack = []
    for s in segs[:-1]:
        ent = cur.get(s)
        if ent is None:
            raise MustFail("missing key")
        if ent[0] != "set":
            if ent[1] == "<inherit>" or is_reference(ent[1]):
                raise Unspec("path through inherit/reference")
            raise MustFail("non-set on path")
        if ent[2] == "mixed":
            raise Unspec("path through a name defined both explicitly and by attrpath")
        stack.append((cur, s))
        cur = ent[1]
    k = segs[-1]
    ent = cur.get(k)
    if ent is None:
        raise MustFail("missing key")
    if ent[0] == "set" and ent[2] in ("attrpath", "mixed"):
        raise Unspec("rm of an attrpath-derived intermediate")
    if ent[0] == "leaf" and ent[1] == "<inherit>":
        raise Unspec("inherited name")
    del cur[k]
    for par, s in reversed(stack):
        if par[s][0] == "set" and par[s][2] == "attrpath" and not par[s][1]:
            del par[s]
        else:
            break
    return t


def expect(view: obs.AttrView, kind: str, path: str, value: str | None):
    """-> ('ok', tree, layers) | ('fail', reason) | ('unspec', reason)"""
    try:
        d, segs = parse_path(path)
    except Malformed as e:
        return ("fail", "malformed path: %s" % e)
    names = [s for s, _ in segs]
    val = None
    if kind == "set":
        val = value_view(value)
        if val is None:
            return ("fail", "value is not exactly one expression")
    if view.status != "ok":
        return ("fail", "document is not an editable shape (%s)" % view.status)
    if any(k.startswith("<interp:") or k.startswith("<dyn:") for k in _all_keys(view.tree)):
        return ("unspec", "dynamic attribute names in the document")
    try:
        if d == 0:
            nt = model_set(view.tree, names, val) if kind == "set" else model_rm(view.tree, names)
            return ("ok", nt, copy.deepcopy(view.layers))
        layers = copy.deepcopy(view.layers)
        if kind == "set" and d == 1 and not layers:
            layers = [{}]
        if d > len(layers):
            return ("fail", "missing outer scope layer")
        idx = len(layers) - d
        layers[idx] = model_set(layers[idx], names, val) if kind == "set" else model_rm(layers[idx], names)
        if kind == "rm" and not layers[idx]:
            del layers[idx]
        return ("ok", copy.deepcopy(view.tree), layers)
    except MustFail as e:
        return ("fail", str(e))
    except Unspec as e:
        return ("unspec", str(e))


def _all_keys(tree):
    for k, v in tree.items():
        yield k
        if v[0] == "set":
            yield from _all_keys(v[1])


def trees_equal(model: dict, got: dict) -> str | None:
    """Ordered comparison; 'new' form tags in the model accept any form. -> None or a reason."""
    mk, gk = list(model.keys()), list(got.keys())
    if mk != gk:
        if sorted(mk) != sorted(gk):
            return f"keys differ: expected {mk}, got {gk}"
        # the position of an attrpath-derived root in the decoded tree is that of its first member in
        # the text, which legitimately moves when members are appended / removed: judge the order of
        # the other keys only
        def fixed(keys, tree):
            return [k for k in keys if not (tree[k][0] == "set" and tree[k][2] in ("attrpath", "mixed", "new"))]

        if fixed(mk, model) != fixed(gk, got):
            return f"order differs: expected {mk}, got {gk}"
    for k in mk:
        m, g = model[k], got[k]
        if m[0] != g[0]:
            return f"{k}: expected {m[0]}, got {g[0]}"
        if m[0] == "leaf":
            if m[1] != g[1]:
                return f"{k}: expected value {m[1]!r}, got {g[1]!r}"
        else:
            if m[2] not in ("new",) and m[2] != g[2] and not (m[2] == "explicit" and not m[1]):
                return f"{k}: form expected {m[2]}, got {g[2]}"
            r = trees_equal(m[1], g[1])
            if r:
                return f"{k}.{r}"
    return None
