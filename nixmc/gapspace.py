"""E1 - the syntax-space ("gap") explorer.

A *program* is a tree of constructs from CATALOGUE; every construct is a template of
tokens and holes.  A *case* is a program plus the set of gaps that deviate from the default
single space (plus the file-leading and file-trailing gap).  The space of all cases with at
most k deviations over a gap alphabet is enumerated completely, in a fixed order.

Admission: a rendered case is in the property's domain iff the tree-sitter grammar accepts
it and its code-token sequence equals that of the default rendering (so no hand-written table
says where whitespace is mandatory: the grammar decides).
"""
from __future__ import annotations

import dataclasses
import itertools
from functools import lru_cache
from typing import Iterator

from . import obs

GLUE = "\x00GLUE"  # fixed empty gap (inside string / path bodies): never varied


def H(i):
    return ("H", i)


# name -> template.  Elements: token text, H(i) hole, GLUE marker between two elements.
CATALOGUE: dict[str, list] = {
    # attribute sets
    "set1": ["{", "a", "=", H(0), ";", "}"],
    "set2": ["{", "a", "=", H(0), ";", "b", "=", H(1), ";", "}"],
    "recset": ["rec", "{", "a", "=", H(0), ";", "}"],
    "attrpath": ["{", "a", ".", "b", "=", H(0), ";", "a", ".", "c", "=", "2", ";", "}"],
    "qkey": ["{", '"', GLUE, "k k", GLUE, '"', "=", H(0), ";", "}"],
    "ikey": ["{", "${", H(0), "}", "=", "1", ";", "}"],
    "emptyset": ["{", "}"],
    "inherit": ["{", "inherit", "a", "b", ";", "c", "=", H(0), ";", "}"],
    "inheritfrom": ["{", "inherit", "(", H(0), ")", "a", "b", ";", "}"],
    "inheritq": ["{", "inherit", '"', GLUE, "k-k", GLUE, '"', "b", ";", "c", "=", H(0), ";", "}"],  # quoted inherited name
    "inheritfromq": ["{", "inherit", "(", H(0), ")", "a", '"', GLUE, "k k", GLUE, '"', "b", ";", "}"],
    # lists
    "list": ["[", H(0), H(1), "]"],
    "list1": ["[", H(0), "]"],
    "emptylist": ["[", "]"],
    # let
    "let": ["let", "a", "=", H(0), ";", "in", H(1)],
    "let2": ["let", "a", "=", H(0), ";", "b", "=", "2", ";", "in", H(1)],
    "letempty": ["let", "in", H(0)],
    "letinherit": ["let", "inherit", "(", H(0), ")", "a", ";", "in", H(1)],
    "legacylet": ["let", "{", "body", "=", H(0), ";", "}"],
    # lambdas
    "lam": ["a", ":", H(0)],
    "lamf": ["{", "a", ",", "b", "?", H(0), ",", "...", "}", ":", H(1)],
    "lamf1": ["{", "a", "}", ":", H(0)],
    "lamat": ["{", "a", "}", "@", "args", ":", H(0)],
    "lamat2": ["args", "@", "{", "a", "}", ":", H(0)],
    "lamempty": ["{", "}", ":", H(0)],
    "lamdots": ["{", "...", "}", ":", H(0)],
    # application
    "call": [H(0), H(1)],
    "call2": ["f", H(0), H(1)],
    "import": ["import", H(0)],
    # control
    "if": ["if", H(0), "then", H(1), "else", H(2)],
    "with": ["with", H(0), ";", H(1)],
    "assert": ["assert", H(0), ";", H(1)],
    # selection
    "select": [H(0), ".", "b", ".", "c"],
    "selector": [H(0), ".", "b", "or", H(1)],
    "selstr": [H(0), ".", '"', GLUE, "k", GLUE, '"'],
    "selinterp": [H(0), ".", "${", H(1), "}"],
    "hasattr": [H(0), "?", "b", ".", "c"],
    # unary / binary
    "not": ["!", H(0)],
    "neg": ["-", H(0)],
    "paren": ["(", H(0), ")"],
    "concat": [H(0), "++", H(1)],
    "update": [H(0), "//", H(1)],
    "plus": [H(0), "+", H(1)],
    "minus": [H(0), "-", H(1)],
    "mul": [H(0), "*", H(1)],
    "div": [H(0), "/", H(1)],
    "and": [H(0), "&&", H(1)],
    "or": [H(0), "||", H(1)],
    "impl": [H(0), "->", H(1)],
    "eq": [H(0), "==", H(1)],
    "neq": [H(0), "!=", H(1)],
    "lt": [H(0), "<", H(1)],
    "ge": [H(0), ">=", H(1)],
    "chain3": [H(0), "++", H(1), "++", H(2)],
    "plus3": [H(0), "+", H(1), "+", H(2)],
    # strings / paths with interpolation
    "strinterp": ['"', GLUE, "s", GLUE, "${", H(0), "}", GLUE, "t", GLUE, '"'],
    "istrinterp": ["''", GLUE, "s", GLUE, "${", H(0), "}", GLUE, "t", GLUE, "''"],
    "pathinterp": ["./p/", GLUE, "${", H(0), "}", GLUE, "/q"],
    # atoms (0 holes)
    "x": ["x"],
    "int": ["1"],
    "int0": ["007"],
    "float": ["1.5"],
    "str": ['"', GLUE, "s", GLUE, '"'],
    "stresc": ['"', GLUE, "a", GLUE, "\\n", GLUE, "\\${", GLUE, "b", GLUE, '"'],
    "strutf": ['"', GLUE, "é✓", GLUE, '"'],
    "strempty": ['"', GLUE, '"'],
    "istr": ["''", GLUE, "\n  i\n", GLUE, "''"],
    "istresc": ["''", GLUE, "a", GLUE, "''$", GLUE, "b", GLUE, "'''", GLUE, "c", GLUE, "''"],
    "path": ["./p"],
    "abspath": ["/a/b"],
    "homepath": ["~/q"],
    "spath": ["<n>"],
    "uri": ["http://e.x/y"],
    "true": ["true"],
    "null": ["null"],
}

ATOM_CONSTRUCTS = [k for k, v in CATALOGUE.items() if not any(isinstance(e, tuple) for e in v)]
COMPOSITE_CONSTRUCTS = [k for k in CATALOGUE if k not in ATOM_CONSTRUCTS]


def n_holes(c: str) -> int:
    return sum(1 for e in CATALOGUE[c] if isinstance(e, tuple))


# Gap alphabet.  Every comment text carries a marker that the renderer replaces with a
# unique serial per gap position so comments can be tracked individually.
GAPS_FULL = [
    " ", "", "  ", "\t", "\n", "\n\n", "\n\n\n", "\n  ",
    " # c§\n", "\n# c§\n", "\n  # c§\n  ", " #c§\n", "\n\n# c§\n\n",
    " /* c§ */\n", "\n/* c§ */\n", "\n/* m§\n   n */\n", "\n/** d§ */\n",
    " /* c§ */ ", "/*c§*/", " /* m§\n   n */ ", " /** d§ */ ",
    " # é✓§\n", "\n# c§\n# e§\n",
    " /* c§ */ # e§\n",  # a block comment and a line comment in the same gap
    "# c§\n", "/* c§ */\n",  # comment glued to the previous token / first thing in the file
    " # c§\n\n",  # an end-of-line comment followed by a blank line
]
# representative subset: one per layout class
GAPS_REP = [" ", "", "  ", "\n", "\n\n\n", " # c§\n", "\n# c§\n", "\n/* c§ */\n", " /* c§ */ ", "\n/* m§\n   n */\n", "# c§\n"]
DEFAULT_GAP = " "

# R4 - atom simplification: each atom may be replaced by a simpler atom of the same layout
# kind.  (All targets are members of GAPS_FULL, so the FULL space is closed under it.)
SIMPLER = {
    "\t": ["  "],
    "\n\n\n": ["\n\n"],
    "\n\n": ["\n"],
    "\n  ": ["\n"],
    "\n  # c§\n  ": ["\n# c§\n"],
    " #c§\n": [" # c§\n"],
    " # é✓§\n": [" # c§\n"],
    "\n\n# c§\n\n": ["\n# c§\n"],
    "\n# c§\n# e§\n": ["\n# c§\n"],
    " /* c§ */\n": [" # c§\n"],
    "\n/* c§ */\n": ["\n# c§\n"],
    "\n/* m§\n   n */\n": ["\n/* c§ */\n"],
    "\n/** d§ */\n": ["\n/* c§ */\n"],
    "/*c§*/": [" /* c§ */ "],
    " /* m§\n   n */ ": [" /* c§ */ "],
    " /** d§ */ ": [" /* c§ */ "],
    " /* c§ */ # e§\n": [" # c§\n", " /* c§ */\n"],
    " # c§\n\n": [" # c§\n", "\n\n"],
    "# c§\n": [" # c§\n"],
    "/* c§ */\n": [" /* c§ */\n"],
}


@dataclasses.dataclass(frozen=True, slots=True)
class P:
    c: str
    kids: tuple = ()
    gaps: tuple = ()  # ((elem_index, atom), ...) sorted; gap between element j and j+1 of the template

    def dev_count(self) -> int:
        return len(self.gaps) + sum(k.dev_count() for k in self.kids)

    def size(self) -> int:
        return 1 + sum(k.size() for k in self.kids)

    def depth(self) -> int:
        return 1 + max((k.depth() for k in self.kids), default=0)


X = P("x")


def mk(c: str, *kids: P) -> P:
    n = n_holes(c)
    ks = tuple(kids) + (X,) * (n - len(kids))
    return P(c, ks)


@lru_cache(maxsize=None)
def _elements(c: str):
    """Template without GLUE markers + set of glued element indexes (gap j fixed empty)."""
    elems = []
    glued = set()
    for e in CATALOGUE[c]:
        if e == GLUE:
            glued.add(len(elems) - 1)
        else:
            elems.append(e)
    return tuple(elems), frozenset(glued)


def gap_slots(p: P, path=()) -> Iterator[tuple[tuple, int]]:
    """All variable gap positions (node path, element index) of a program."""
    elems, glued = _elements(p.c)
    for j in range(len(elems) - 1):
        if j not in glued:
            yield (path, j)
    hi = 0
    for e in elems:
        if isinstance(e, tuple):
            yield from gap_slots(p.kids[e[1]], path + (e[1],))


def render(p: P, serial=None, node=None) -> str:
    """Render a program; default gaps are single spaces.  The binding/formal name `a` of every
    non-root node is made unique (`a2`, `a3`, ... by DFS ordinal) so that nested or repeated
    constructs are distinguishable in the token sequence (a re-ordering of levels is visible)."""
    if serial is None:
        serial = [0]
    if node is None:
        node = [0]
    node[0] += 1
    me = node[0]
    elems, glued = _elements(p.c)
    gaps = dict(p.gaps)
    out = []
    for j, e in enumerate(elems):
        if isinstance(e, tuple):
            out.append(render(p.kids[e[1]], serial, node))
        elif e == "a" and me > 1:
            out.append(f"a{me}")
        else:
            out.append(e)
        if j < len(elems) - 1:
            if j in glued:
                continue
            g = gaps.get(j, DEFAULT_GAP)
            if "§" in g:
                while "§" in g:
                    serial[0] += 1
                    g = g.replace("§", str(serial[0]), 1)
            out.append(g)
    return "".join(out)


@dataclasses.dataclass(frozen=True, slots=True)
class Case:
    prog: P
    lead: str = ""
    trail: str = ""

    def devs(self) -> int:
        return self.prog.dev_count() + (1 if self.lead else 0) + (1 if self.trail else 0)

    def text(self) -> str:
        serial = [0]
        lead = self.lead
        while "§" in lead:
            serial[0] += 1
            lead = lead.replace("§", str(serial[0]), 1)
        body = render(self.prog, serial)
        trail = self.trail
        while "§" in trail:
            serial[0] += 1
            trail = trail.replace("§", str(serial[0]), 1)
        return lead + body + trail

    def describe(self) -> dict:
        return {"program": show(self.prog), "lead": self.lead, "trail": self.trail, "text": self.text()}


def show(p: P) -> str:
    s = p.c
    if p.gaps:
        s += "{" + ",".join(f"{j}:{a!r}" for j, a in p.gaps) + "}"
    if p.kids:
        s += "(" + ",".join(show(k) for k in p.kids) + ")"
    return s


def set_gap(p: P, path: tuple, j: int, atom: str | None) -> P:
    if not path:
        gaps = dict(p.gaps)
        if atom is None or atom == DEFAULT_GAP:
            gaps.pop(j, None)
        else:
            gaps[j] = atom
        return P(p.c, p.kids, tuple(sorted(gaps.items())))
    i = path[0]
    kids = list(p.kids)
    kids[i] = set_gap(kids[i], path[1:], j, atom)
    return P(p.c, tuple(kids), p.gaps)


def replace_at(p: P, path: tuple, new: P) -> P:
    if not path:
        return new
    i = path[0]
    kids = list(p.kids)
    kids[i] = replace_at(kids[i], path[1:], new)
    return P(p.c, tuple(kids), p.gaps)


def subtrees(p: P, path=()) -> Iterator[tuple[tuple, P]]:
    yield path, p
    for i, k in enumerate(p.kids):
        yield from subtrees(k, path + (i,))


# --------------------------------------------------------------------------- admission

_expected_cache: dict = {}


def strip_gaps(p: P) -> P:
    return P(p.c, tuple(strip_gaps(k) for k in p.kids), ())


def expected_tokens(p: P):
    """Code tokens of the default rendering, or None if the default rendering is not valid Nix."""
    base = strip_gaps(p)
    r = _expected_cache.get(base)
    if r is None:
        err, leaves = obs.lex(render(base))
        r = (None if err else tuple(obs.code_tokens(leaves)),)
        _expected_cache[base] = r
    return r[0]


def admit(case: Case):
    """Return (text, leaves) if the case is a valid program with the skeleton's tokens, else None."""
    exp = expected_tokens(case.prog)
    if exp is None:
        return None
    text = case.text()
    err, leaves = obs.lex(text)
    if err:
        return None
    if tuple(obs.code_tokens(leaves)) != exp:
        return None
    return text, leaves


# --------------------------------------------------------------------------- enumeration

def programs(depth: int, constructs=None, inner=None) -> Iterator[P]:
    """depth 1: every construct with 'x' in its holes.
    depth d: every composite construct with exactly one hole holding a depth d-1 program
    (the other holes hold 'x')."""
    cons = list(constructs) if constructs is not None else list(CATALOGUE)
    if depth == 1:
        for c in cons:
            yield mk(c)
        return
    inner_progs = list(inner) if inner is not None else list(programs(depth - 1))
    for c in cons:
        n = n_holes(c)
        for h in range(n):
            for ip in inner_progs:
                if ip == X:
                    continue
                kids = [X] * n
                kids[h] = ip
                yield P(c, tuple(kids))


def cases_for(prog: P, gap_atoms: list[str], max_dev: int, file_gaps: bool = True, pair_distance: int | None = None) -> Iterator[Case]:
    """All cases of one program with at most max_dev deviating gaps (0 first, then 1, then 2)."""
    yield Case(prog)
    slots = list(gap_slots(prog))
    atoms = [a for a in gap_atoms if a != DEFAULT_GAP]
    file_atoms = [a for a in gap_atoms if a not in (DEFAULT_GAP, "")]
    if max_dev >= 1:
        for path, j in slots:
            for a in atoms:
                yield Case(set_gap(prog, path, j, a))
        if file_gaps:
            for a in file_atoms:
                yield Case(prog, lead=a)
            for a in file_atoms:
                yield Case(prog, trail=a)
    if max_dev >= 2:
        for i1 in range(len(slots)):
            for i2 in range(i1 + 1, len(slots)):
                if pair_distance is not None and i2 - i1 > pair_distance:
                    break
                for a1 in atoms:
                    p1 = set_gap(prog, slots[i1][0], slots[i1][1], a1)
                    for a2 in atoms:
                        yield Case(set_gap(p1, slots[i2][0], slots[i2][1], a2))
        if file_gaps:
            for path, j in slots:
                for a in atoms:
                    p1 = set_gap(prog, path, j, a)
                    for fa in file_atoms:
                        yield Case(p1, lead=fa)
                        yield Case(p1, trail=fa)


# --------------------------------------------------------------------------- reductions

def has_dev(p: P) -> bool:
    return bool(p.gaps) or any(has_dev(k) for k in p.kids)


def reductions(case: Case) -> Iterator[Case]:
    """The reduction relation under which every bounded space is closed."""
    prog = case.prog
    # R1: reset one deviating gap
    if case.lead:
        yield Case(prog, "", case.trail)
    if case.trail:
        yield Case(prog, case.lead, "")
    for path, sub in subtrees(prog):
        for j, a in sub.gaps:
            yield Case(set_gap(prog, path, j, None), case.lead, case.trail)
    # R4: simplify one deviating gap atom
    for a2 in SIMPLER.get(case.lead, ()):
        yield Case(prog, a2, case.trail)
    for a2 in SIMPLER.get(case.trail, ()):
        yield Case(prog, case.lead, a2)
    for path, sub in subtrees(prog):
        for j, a in sub.gaps:
            for a2 in SIMPLER.get(a, ()):
                yield Case(set_gap(prog, path, j, a2), case.lead, case.trail)
    # R2: replace a deviation-free sub-program (not already 'x') by the atom x
    for path, sub in subtrees(prog):
        if path and sub != X and not has_dev(sub):
            yield Case(replace_at(prog, path, X), case.lead, case.trail)
    # R3: hoist a proper sub-program that owns all deviating gaps
    total = prog.dev_count()
    for path, sub in subtrees(prog):
        if path and sub != X and sub.dev_count() == total:
            yield Case(sub, case.lead, case.trail)


def minimal_cases(case: Case, cls: str, fails) -> set[Case]:
    """All minimal failing cases reachable from `case` by reductions that keep failing with class `cls`.

    fails(case) -> set of classes (empty if passing or not admitted).  Memoised by the caller.
    """
    seen: dict[Case, frozenset] = {}

    def go(c: Case) -> frozenset:
        if c in seen:
            return seen[c]
        seen[c] = frozenset()  # guard (reductions strictly shrink, so no cycles anyway)
        smaller = [r for r in reductions(c) if cls in fails(r)]
        if not smaller:
            res = frozenset([c])
        else:
            acc = set()
            for r in smaller:
                acc |= go(r)
            res = frozenset(acc)
        seen[c] = res
        return res

    return set(go(case))


def self_test() -> dict:
    """Every catalogue entry renders to valid Nix by default; every named visible node kind
    of the grammar occurs in at least one depth-1 program."""
    kinds: set = set()
    bad = []
    for c in CATALOGUE:
        p = mk(c)
        text = render(p)
        err, _ = obs.lex(text, kinds)
        if err:
            bad.append((c, text))
    want = set(obs.named_visible_kinds())
    return {"invalid_defaults": bad, "missing_kinds": sorted(want - kinds), "kinds_seen": len(kinds & want), "kinds_total": len(want)}
