"""Independent observers: everything an oracle knows about a text comes from here.

Nothing in this module imports nix_manipulator.  The tree-sitter-nix grammar is the
trusted definition of "parses without error".
"""
from __future__ import annotations

import dataclasses
import re
import threading
from typing import Any

import tree_sitter as _ts
import tree_sitter_nix as _tsn

_LANG = _tsn.language()
if not isinstance(_LANG, _ts.Language):
    _LANG = _ts.Language(_LANG)
_local = threading.local()


def _parser():
    p = getattr(_local, "p", None)
    if p is None:
        p = _local.p = _ts.Parser(_LANG)
    return p


def cst(text: str | bytes):
    b = text.encode("utf-8") if isinstance(text, str) else text
    return _parser().parse(b).root_node


def named_visible_kinds() -> list[str]:
    return sorted(
        {
            _LANG.node_kind_for_id(i)
            for i in range(_LANG.node_kind_count)
            if _LANG.node_kind_is_named(i) and _LANG.node_kind_is_visible(i)
        }
    )


STRING_PARTS = ("string_fragment", "escape_sequence", "dollar_escape")


@dataclasses.dataclass(slots=True, frozen=True)
class Leaf:
    type: str
    text: str
    start: int
    end: int
    parent: str  # type of the parent node


def _walk_leaves(node, out, kinds=None):
    stack = [node]
    # iterative DFS preserving order
    while stack:
        n = stack.pop()
        if kinds is not None and n.child_count:
            kinds.add(n.type)
        if n.child_count == 0:
            if n.type == "source_code":
                continue
            out.append(n)
        else:
            stack.extend(reversed(n.children))
    return out


def has_error(text: str | bytes) -> bool:
    """True iff the CST has an ERROR or MISSING node (root.has_error covers both)."""
    return cst(text).has_error


def lex(text: str | bytes, kinds: set | None = None) -> tuple[bool, list[Leaf]]:
    """Return (has_error, leaves).  MISSING (zero-width) leaves are dropped."""
    root = cst(text)
    nodes = _walk_leaves(root, [], kinds)
    out = []
    for n in nodes:
        if n.is_missing:
            continue
        if kinds is not None:
            kinds.add(n.type)
        out.append(
            Leaf(n.type, n.text.decode("utf-8", "replace"), n.start_byte, n.end_byte, n.parent.type if n.parent else "")
        )
    return root.has_error, out


def valid(text: str | bytes) -> bool:
    return not cst(text).has_error


def valid_modulo_formals_comma(text: str) -> bool:
    """valid(), allowing a ',' directly before '}' (trailing comma of a formals list).

    The pinned tree-sitter-nix 0.1.0 rejects `{ a, }: x` although Nix and RFC 0166
    accept/produce it.  Used only for *outputs*.
    """
    root = cst(text)
    if not root.has_error:
        return True
    b = bytearray(text.encode("utf-8"))
    leaves = [n for n in _walk_leaves(root, []) if not n.is_missing and n.type != "comment"]
    cut = [a.start_byte for a, c in zip(leaves, leaves[1:]) if a.type == "," and c.type == "}"]
    if not cut:
        return False
    for p in reversed(cut):
        del b[p]
    return not cst(bytes(b)).has_error


# --------------------------------------------------------------------------- tokens

def code_tokens(leaves: list[Leaf]) -> list[tuple[str, str]]:
    """Code-token sequence: comments dropped, adjacent string parts merged, ints by value."""
    out: list[tuple[str, str]] = []
    for l in leaves:
        if l.type == "comment":
            continue
        if l.type in STRING_PARTS:
            if out and out[-1][0] == "STR" :
                out[-1] = ("STR", out[-1][1] + l.text)
            else:
                out.append(("STR", l.text))
            continue
        if l.type == "integer_expression":
            try:
                out.append(("INT", str(int(l.text))))
            except ValueError:
                out.append(("INT", l.text))
            continue
        out.append((l.type if l.type in ("identifier", "path_fragment", "float_expression", "uri_expression",
                                         "spath_expression", "hpath_expression", "ellipses") else "T", l.text))
    # a STR token must not merge across a string delimiter: delimiters are tokens themselves so
    # merging only ever joins parts of one string.
    return out


def normalise_tokens(toks: list[tuple[str, str]], text: str | None = None, leaves: list[Leaf] | None = None):
    """Apply the licensed C01 normalisations to a token list.

    * `let` immediately followed by `in` (only trivia between) disappears;
    * a `,` immediately followed by `}` disappears (trailing formals comma).
    """
    out = []
    i = 0
    n = len(toks)
    while i < n:
        t = toks[i]
        if t == ("T", "let") and i + 1 < n and toks[i + 1] == ("T", "in"):
            i += 2
            continue
        if t == ("T", ",") and i + 1 < n and toks[i + 1] == ("T", "}"):
            i += 1
            continue
        out.append(t)
        i += 1
    return out


def trailing_formals_commas_single_line(text: str, leaves: list[Leaf]) -> bool:
    """True iff some `, }` pair closes a brace group that does not span several lines
    (the normalisation is only licensed for multi-line formals)."""
    code = [l for l in leaves if l.type != "comment"]
    stack = []
    for idx, l in enumerate(code):
        if l.type in ("{", "${"):
            stack.append(l)
        elif l.type == "}":
            opener = stack.pop() if stack else None
            if idx > 0 and code[idx - 1].type == "," and opener is not None:
                if "\n" not in text.encode("utf-8")[opener.start : l.end].decode("utf-8", "replace"):
                    return True
    return False


# --------------------------------------------------------------------------- comments

def comment_wording(c: str) -> tuple[str, tuple[str, ...]]:
    """Kind + per-line text with indentation and delimiter padding stripped.

    A single-line block comment and a line comment with the same words are the same
    wording class only if their kind matches, except that kind 'block' with one line may
    be compared with 'line' by callers that license it (RFC 0166 allows the conversion).
    """
    if c.startswith("#"):
        return ("line", (c[1:].strip(),))
    inner = c[2:-2] if c.endswith("*/") else c[2:]
    kind = "block"
    if inner.startswith("*") and not inner.startswith("**/"):
        kind = "doc"
        inner = inner[1:]
    lines = [ln.strip() for ln in inner.split("\n")]
    while lines and lines[0] == "":
        lines.pop(0)
    while lines and lines[-1] == "":
        lines.pop()
    return (kind, tuple(lines))


ANCHOR_DROP = {"{", "}", "[", "]", "(", ")", ";", ",", ":", "@", "=", "${", '"', "''"}


def anchor_sequence(leaves: list[Leaf]) -> list[tuple[str, Any]]:
    """Comments ('C', wording) interleaved with anchor tokens ('T', text)."""
    seq: list[tuple[str, Any]] = []
    for l in leaves:
        if l.type == "comment":
            seq.append(("C", comment_wording(l.text)))
        elif l.type in ANCHOR_DROP:
            continue
        elif l.type in STRING_PARTS:
            if seq and seq[-1][0] == "S":
                seq[-1] = ("S", seq[-1][1] + l.text)
            else:
                seq.append(("S", l.text))
        elif l.type == "integer_expression":
            try:
                seq.append(("T", str(int(l.text))))
            except ValueError:
                seq.append(("T", l.text))
        else:
            seq.append(("T", l.text))
    # the licensed `let in` elision
    out = []
    i = 0
    while i < len(seq):
        if seq[i] == ("T", "let"):
            j = i + 1
            while j < len(seq) and seq[j][0] == "C":
                j += 1
            if j < len(seq) and seq[j] == ("T", "in"):
                out.extend(seq[i + 1 : j])
                i = j + 1
                continue
        out.append(seq[i])
        i += 1
    return out


def comments_line_level(text: str, leaves: list[Leaf]) -> bool:
    """C06 precondition: every comment sits alone on its line(s) or ends a line,
    i.e. nothing but blanks follows it on its last line."""
    b = text.encode("utf-8")
    for l in leaves:
        if l.type != "comment":
            continue
        j = l.end
        while j < len(b) and b[j] in (32, 9, 13):
            j += 1
        if j < len(b) and b[j] != 10:
            return False
    return True


# --------------------------------------------------------------------------- spacing (C18)

_OPENERS = {"{": "}", "[": "]", "(": ")", "${": "}"}
_CLOSERS = {"}", "]", ")"}


def _enclosing(a, c):
    """Type of the smallest CST node containing both leaf nodes."""
    n = a.parent
    while n is not None and n.end_byte < c.end_byte:
        n = n.parent
    return n.type if n is not None else "source_code"


def spacing_violations(text: str) -> list[str]:
    """Lexical scan of the gaps between CST leaves (string/comment bodies excluded).

    Returns the ordered list of distinct violation classes `kind@node`, where node is the
    type of the smallest CST node of the *scanned text* that contains the offending gap (the
    renderer responsible for it).
    Whitespace inside string/path bodies is always part of a string_fragment/path_fragment
    leaf (checked in the self-test), so every inter-leaf gap is layout.
    """
    root = cst(text)
    leaves = [n for n in _walk_leaves(root, []) if not n.is_missing]
    b = text.encode("utf-8")
    v: list[str] = []

    def add(k, a=None, c=None):
        k = k + "@" + (_enclosing(a, c) if a is not None else "source_code")
        if k not in v:
            v.append(k)

    if not leaves:
        return v
    if leaves[0].start_byte != 0:
        add("leading-ws")

    def line_start(pos):
        return b.rfind(b"\n", 0, pos) + 1

    def col(pos):
        return pos - line_start(pos)

    def line_indent(pos):
        ls = line_start(pos)
        j = ls
        while j < len(b) and b[j] == 32:
            j += 1
        return j - ls

    def first_on_line(l):
        return b[line_start(l.start_byte) : l.start_byte].strip(b" \t") == b""

    for a, c in zip(leaves, leaves[1:]):
        gap = b[a.end_byte : c.start_byte].decode("utf-8", "replace")
        if "\t" in gap:
            add("tab", a, c)
        if re.search(r"[ \t\r]\n", gap):
            add("trailing-ws", a, c)
        if gap.count("\n") > 2:
            add("multi-blank", a, c)
        if "\n" not in gap and len(gap) > 1:
            add("multi-space", a, c)
        if c.type in (";", ":") and "\n" not in gap and gap != "" and a.type != "comment":
            add("detached-" + c.type, a, c)
    tail = b[leaves[-1].end_byte :].decode("utf-8", "replace")
    if "\t" in tail:
        add("tab")
    if re.search(r"[ \t\r]\n", tail) or re.search(r"[ \t\r]$", tail):
        add("trailing-ws")
    if tail.count("\n") > 2:
        add("multi-blank")
    # indentation of own-line closers and own-line comments
    stack = []
    for i, l in enumerate(leaves):
        if l.type in ("{", "[", "(", "${"):
            stack.append(l)
        elif l.type in _CLOSERS:
            opener = stack.pop() if stack else None
            if opener is not None and opener.type != "${" and first_on_line(l):
                if col(l.start_byte) != line_indent(opener.start_byte):
                    add("closer-indent", opener, l)
        elif l.type == "comment" and first_on_line(l):
            nxt = next((m for m in leaves[i + 1 :] if m.type != "comment"), None)
            if nxt is None or not first_on_line(nxt) or nxt.type in STRING_PARTS:
                continue
            want = col(nxt.start_byte)
            if nxt.type in _CLOSERS or nxt.type == "in":
                want += 2
            if col(l.start_byte) != want:
                add("comment-indent", l, nxt)
    return v


# --------------------------------------------------------------------------- attr tree

def decode_string_node(node) -> str:
    """Independent Nix string decoder working on the raw text between the quotes."""
    raw = node.text.decode("utf-8", "replace")
    if raw.startswith('"') and raw.endswith('"') and len(raw) >= 2:
        body = raw[1:-1]
        out = []
        i = 0
        while i < len(body):
            ch = body[i]
            if ch == "\\" and i + 1 < len(body):
                nx = body[i + 1]
                out.append({"n": "\n", "r": "\r", "t": "\t"}.get(nx, nx))
                i += 2
                continue
            out.append(ch)
            i += 1
        return "".join(out)
    return raw


def node_tokens(node) -> str:
    out = []
    for n in _walk_leaves(node, []):
        if n.type != "comment" and not n.is_missing:
            out.append(n.text.decode("utf-8", "replace"))
    return " ".join(out)


class Dup(Exception):
    pass


def _attr_name(a) -> str:
    if a.type == "identifier":
        return a.text.decode()
    if a.type == "string_expression":
        if any(c.type == "interpolation" for c in a.children):
            return "<interp:" + a.text.decode() + ">"
        return decode_string_node(a)
    return "<dyn:" + a.text.decode() + ">"


def decode_set(node, extents: dict | None = None, prefix: tuple = ()):
    """Ordered tree: name -> ['leaf', token-string] | ['set', subtree, form].

    form in {'explicit','attrpath','mixed'}.  Raises Dup on duplicate definitions.
    extents (optional) collects {path-tuple: (binding_start, binding_end, value_start, value_end)}.
    """
    tree: dict[str, list] = {}
    items = []
    for ch in node.named_children:
        if ch.type == "binding_set":
            items.extend(ch.named_children)
        else:
            items.append(ch)
    for it in items:
        if it.type == "binding":
            ap = it.child_by_field_name("attrpath")
            val = it.child_by_field_name("expression")
            names = [_attr_name(a) for a in ap.named_children]
            cur = tree
            for nm in names[:-1]:
                ex = cur.get(nm)
                if ex is None:
                    ex = ["set", {}, "attrpath"]
                    cur[nm] = ex
                elif ex[0] != "set":
                    raise Dup(nm)
                elif ex[2] == "explicit":
                    ex[2] = "mixed"
                cur = ex[1]
            nm = names[-1]
            path = prefix + tuple(names)
            if extents is not None and val is not None:
                extents[path] = (it.start_byte, it.end_byte, val.start_byte, val.end_byte)
            if val is not None and val.type in ("attrset_expression", "rec_attrset_expression"):
                sub = decode_set(val, extents, path)
                if nm in cur:
                    if cur[nm][0] != "set":
                        raise Dup(nm)
                    for k, v in sub.items():
                        if k in cur[nm][1]:
                            raise Dup(k)
                        cur[nm][1][k] = v
                    cur[nm][2] = "mixed"
                else:
                    cur[nm] = ["set", sub, "explicit"]
            else:
                if nm in cur:
                    raise Dup(nm)
                cur[nm] = ["leaf", node_tokens(val) if val is not None else "<none>"]
        elif it.type in ("inherit", "inherit_from"):
            attrs = it.child_by_field_name("attrs")
            if attrs is None:
                continue
            for a in attrs.named_children:
                if a.type == "comment":
                    continue
                nm = _attr_name(a)
                if nm in tree:
                    raise Dup(nm)
                tree[nm] = ["leaf", "<inherit>"]
                if extents is not None:
                    extents[prefix + (nm,)] = (it.start_byte, it.end_byte, a.start_byte, a.end_byte)
    return tree


def find_target(node, lets: list, trail: list | None = None):
    """Descend through the documented editable shapes to the edited attribute set."""
    t = node.type
    if trail is not None:
        trail.append(t)
    if t in ("attrset_expression", "rec_attrset_expression"):
        return node
    if t == "source_code":
        ch = [c for c in node.named_children if c.type != "comment"]
        return find_target(ch[0], lets, trail) if len(ch) == 1 else None
    if t == "function_expression":
        return find_target(node.child_by_field_name("body"), lets, trail)
    if t == "let_expression":
        lets.append(node)
        return find_target(node.child_by_field_name("body"), lets, trail)
    if t in ("with_expression", "assert_expression"):
        return find_target(node.child_by_field_name("body"), lets, trail)
    if t == "parenthesized_expression":
        return find_target(node.child_by_field_name("expression"), lets, trail)
    if t == "apply_expression":
        return find_target(node.child_by_field_name("argument"), lets, trail)
    return None


@dataclasses.dataclass
class AttrView:
    status: str  # ok | invalid | noset | dup
    tree: dict | None = None
    layers: list | None = None  # outermost first
    detail: str = ""
    extents: dict | None = None  # path -> (b0,b1,v0,v1) in the body set
    layer_extents: list | None = None
    target_extent: tuple | None = None  # (start,end) of the target set
    let_extents: list | None = None  # [(let_start, let_end, body_start)]
    trail: list | None = None


def attr_tree(text: str, want_extents: bool = False) -> AttrView:
    root = cst(text)
    if root.has_error:
        return AttrView("invalid")
    lets: list = []
    trail: list = []
    tgt = find_target(root, lets, trail)
    if tgt is None:
        return AttrView("noset", trail=trail)
    try:
        layers = []
        lext = []
        for l in lets:
            e: dict = {}
            layers.append(decode_set(l, e if want_extents else None))
            lext.append(e)
        e = {}
        tree = decode_set(tgt, e if want_extents else None)
        return AttrView(
            "ok", tree, layers, extents=e, layer_extents=lext,
            target_extent=(tgt.start_byte, tgt.end_byte),
            let_extents=[(l.start_byte, l.end_byte, l.child_by_field_name("body").start_byte) for l in lets],
            trail=trail,
        )
    except Dup as ex:
        return AttrView("dup", detail=str(ex))


def plain(tree: dict) -> dict:
    """Drop the form tags: name -> token string | nested dict."""
    return {k: (v[1] if v[0] == "leaf" else plain(v[1])) for k, v in tree.items()}


# --------------------------------------------------------------------------- snapshots

_SENTINELS = {"EmptyLine", "Linebreak", "Comma"}


def snapshot(obj, _seen=None, _depth=0):
    """Deep, identity-insensitive structural serialisation of a library object tree.

    Works on dataclasses with slots, lists, dicts, tuples; tree-sitter nodes are reduced
    to their byte range; unknown objects to their type name + repr when cheap.
    """
    if _seen is None:
        _seen = set()
    if obj is None or isinstance(obj, (bool, int, float, str, bytes)):
        return obj
    oid = id(obj)
    if oid in _seen:
        return ("<cycle>", type(obj).__name__)
    tname = type(obj).__name__
    if tname in _SENTINELS:
        return "<" + tname + ">"
    if isinstance(obj, (list, tuple)):
        _seen.add(oid)
        try:
            items = [snapshot(x, _seen, _depth + 1) for x in obj]
            extra = ()
            if tname == "Scope":
                extra = ("Scope",)
            return (tname, *extra, items)
        finally:
            _seen.discard(oid)
    if isinstance(obj, dict):
        _seen.add(oid)
        try:
            return ("dict", [(snapshot(k, _seen, _depth + 1), snapshot(v, _seen, _depth + 1)) for k, v in obj.items()])
        finally:
            _seen.discard(oid)
    if isinstance(obj, (set, frozenset)):
        return ("set", sorted(repr(x) for x in obj))
    if dataclasses.is_dataclass(obj) and not isinstance(obj, type):
        _seen.add(oid)
        try:
            fields = []
            for f in dataclasses.fields(obj):
                try:
                    val = getattr(obj, f.name)
                except AttributeError:
                    val = "<unset>"
                fields.append((f.name, snapshot(val, _seen, _depth + 1)))
            return (tname, fields)
        finally:
            _seen.discard(oid)
    if tname == "Node":  # tree-sitter node
        return ("Node", obj.type, obj.start_byte, obj.end_byte)
    if tname == "NixSourceCode":
        _seen.add(oid)
        try:
            return (
                "NixSourceCode",
                snapshot(obj.expressions, _seen, _depth + 1),
                snapshot(obj.trailing, _seen, _depth + 1),
                obj.contains_error,
                str(obj.source_path) if obj.source_path else None,
            )
        finally:
            _seen.discard(oid)
    if hasattr(obj, "__fspath__"):
        return ("Path", str(obj))
    return ("<obj>", tname)
