"""C02 - RFC-0166-formatted source is reproduced byte for byte.

The reference model is a canonical-layout *printer* (below): every derivation of a small grammar of
the package-file idiom up to a size bound is printed and must survive parse -> rebuild unchanged.
nixfmt is not installed, so canonicity is defined by this printer; every production is anchored to
a literal the repository's own tests run through `validate_nixfmt_rfc` (tests/test_reproduce_simple.py,
tests/nix-files/pkgs/trl-default.nix) or to an RFC 0166 paragraph:

  member kinds                                     anchor
  -----------------------------------------------  ---------------------------------------------
  scalar / string / bool / select binding          trl-default.nix (pname, version, doCheck, license)
  one-item inline list `k = [ "trl" ];`            trl-default.nix (pythonImportsCheck)
  multi-line list                                  trl-default.nix (build-system, dependencies)
  nested multi-line set                            trl-default.nix (meta)
  call with multi-line set argument                trl-default.nix (src = fetchFromGitHub {)
  `with e; [ x ]` value                            trl-default.nix (maintainers)
  attrpath binding `a.b = 1;`                      test_rebuild_multi_level_nested_set (validate_nixfmt_rfc)
  `inherit a b;` / `inherit (s) a;`                RFC 0166 "inherit" (short form stays on one line)
  empty set / empty list values `{ }` `[ ]`        test_function_definition_empty (`{ }`), RFC lists
  `if c then a else b` value on one line           RFC 0166 "if" (fits on one line)
  indented string block                            RFC 0166 "strings" (content untouched, closing at binding indent)
  own-line `#` comment, end-of-line `#` comment,   trl-default.nix ("# This is something else", "# Many tests ...");
  blank line between members, RFC block comment,   trl-default.nix (/* … */ block between blank lines)
  heads: `{ a }:` `{ a, b }:` `{ a, ... }:`        test_function_definition_multiline / _expression
  multi-line formals with trailing comma           trl-default.nix (pass-through only: the pinned grammar rejects them)
  `let … in` block before the body                 trl-default.nix
  chains of 2-4 directly nested let blocks         docs/cli.md ("Update an outer scope binding": let/in/let/in/body)
  `k =` / let block / `in` / call as a binding value   RFC 0166 "let" (a let as binding value starts on the next line, body after `in` at the let's indentation)
  comment-only list (own line / let body / list element / `then` branch)   RFC 0166 "lists" (a list holding only a comment is multi-line, `[` at the indentation of its line)
  non-ASCII text in comments and string values      the property's "whatever the ... literal values"; layout identical to ASCII
  bodies: set, `f { … }`, `f rec { … }`            test_function_calls_function / _recursive_function
"""
from __future__ import annotations

import contextlib
import io
import itertools
import sys

from .. import core, obs

IND = "  "

# member generators: (name, lambda indent-level -> list of lines without trailing newline)
def m_scalar(i, n):
    return [f"{IND*i}k{n} = {n};"]


def m_string(i, n):
    return [f'{IND*i}s{n} = "v${{x}}-{n}";']


def m_bool(i, n):
    return [f"{IND*i}b{n} = false;"]


def m_select(i, n):
    return [f"{IND*i}l{n} = lib.licenses.asl20;"]


def m_list1(i, n):
    return [f'{IND*i}i{n} = [ "trl" ];']


def m_mllist(i, n):
    return [f"{IND*i}d{n} = [", f"{IND*(i+1)}acc", f"{IND*(i+1)}rich", f"{IND*i}];"]


def m_nested(i, n):
    return [f"{IND*i}meta{n} = {{", f'{IND*(i+1)}description = "d";', f"{IND*(i+1)}n = {n};", f"{IND*i}}};"]


def m_call(i, n):
    return [f"{IND*i}src{n} = fetchFromGitHub {{", f"{IND*(i+1)}owner = owner;", f'{IND*(i+1)}tag = "v${{version}}";', f"{IND*i}}};"]


def m_with(i, n):
    return [f"{IND*i}m{n} = with lib.maintainers; [ hoh ];"]


def m_attrpath(i, n):
    return [f"{IND*i}meta.d{n} = {n};"]


def m_inherit(i, n):
    return [f"{IND*i}inherit a{n} b{n};"]


def m_inherit_from(i, n):
    return [f"{IND*i}inherit (pkgs) c{n};"]


def m_empty(i, n):
    return [f"{IND*i}e{n} = {{ }};"]


def m_emptylist(i, n):
    return [f"{IND*i}f{n} = [ ];"]


def m_if(i, n):
    return [f"{IND*i}c{n} = if stdenv.isLinux then a else b;"]


def m_utf8(i, n):
    return [f'{IND*i}u{n} = "Jörg «x» ✓";']


def m_letcall(i, n):
    return [
        f"{IND*i}src{n} =",
        f"{IND*(i+1)}let",
        f'{IND*(i+2)}rev = "v{n}";',
        f"{IND*(i+1)}in",
        f"{IND*(i+1)}fetchFromGitHub {{",
        f"{IND*(i+2)}inherit rev;",
        f"{IND*(i+1)}}};",
    ]


def m_istr(i, n):
    return [f"{IND*i}t{n} = ''", f"{IND*(i+1)}echo hi", f"{IND*(i+1)}make install", f"{IND*i}'';"]


def m_commentlist(i, n):
    return [f"{IND*i}p{n} = [", f"{IND*(i+1)}# nothing yet", f"{IND*i}];"]


def m_letcommentlist(i, n):
    # a comment-only list that starts its own line (body of a let used as binding value)
    return [f"{IND*i}v{n} =", f"{IND*(i+1)}let", f"{IND*(i+2)}r = {n};", f"{IND*(i+1)}in", f"{IND*(i+1)}[", f"{IND*(i+2)}# nothing yet", f"{IND*(i+1)}];"]


def m_listinlist(i, n):
    return [f"{IND*i}o{n} = [", f"{IND*(i+1)}[", f"{IND*(i+2)}# nothing yet", f"{IND*(i+1)}]", f"{IND*(i+1)}x", f"{IND*i}];"]


def m_ifml(i, n):
    return [f"{IND*i}w{n} =", f"{IND*(i+1)}if stdenv.isLinux then", f"{IND*(i+2)}[", f"{IND*(i+3)}# nothing yet", f"{IND*(i+2)}]", f"{IND*(i+1)}else", f"{IND*(i+2)}b;"]


MEMBERS = {
    "scalar": m_scalar, "string": m_string, "bool": m_bool, "select": m_select, "list1": m_list1, "mllist": m_mllist,
    "nested": m_nested, "call": m_call, "with": m_with, "attrpath": m_attrpath, "inherit": m_inherit,
    "inherit_from": m_inherit_from, "empty": m_empty, "emptylist": m_emptylist, "if": m_if, "istr": m_istr, "utf8": m_utf8, "letcall": m_letcall,
    "commentlist": m_commentlist, "letcommentlist": m_letcommentlist, "listinlist": m_listinlist, "ifml": m_ifml,
}
# decorations attach to a member position: (kind, position)
DECOS = ["own_comment", "blank", "eol_comment", "block_comment", "blank_own_comment"]


def render_members(kinds, decos, level):
    lines = []
    for idx, k in enumerate(kinds):
        ds = [d for d, pos in decos if pos == idx]
        if "blank" in ds and idx > 0:
            lines.append("")
        if "blank_own_comment" in ds and idx > 0:
            lines.append("")
            lines.append(f"{IND*level}# dependencies")
        if "block_comment" in ds and idx > 0:
            lines += ["", f"{IND*level}/*", f"{IND*(level+1)}We love", f"{IND*(level+1)}multiline comments", f"{IND*level}*/", ""]
        if "own_comment" in ds:
            lines.append(f"{IND*level}# about member {idx}")
        ml = MEMBERS[k](level, idx)
        if "eol_comment" in ds:
            ml = ml[:-1] + [ml[-1] + " # note"]  # also after the closing line of a multi-line value
        lines += ml
    # decorations at position len(kinds) stand between the last member and the closing brace
    ds = [d for d, pos in decos if pos == len(kinds)]
    if "blank_own_comment" in ds:
        lines.append("")
        lines.append(f"{IND*level}# to be continued")
    if "own_comment" in ds:
        lines.append(f"{IND*level}# end of members")
    # the canonical form never has two consecutive blank lines
    out = []
    for ln in lines:
        if ln == "" and out and out[-1] == "":
            continue
        out.append(ln)
    return out


HEADS = {
    "none": [],
    "one": ["{ a }:"],
    "two": ["{ a, c }:"],
    "dots": ["{ a, ... }:"],
    "ml_formals": ["{", "  lib,", "  fetchFromGitHub,", "}:"],  # pass-through only (trailing comma)
}
LETS = {
    "none": [],
    "let1": ["let", '  owner = "huggingface";', "in"],
    "let2": ["let", '  owner = "huggingface";', "  # We love comments here", "  acc = accelerate;", "in"],
    # chains of directly nested let blocks (cli.md "Update an outer scope binding" shows the two-block form)
    "chain2": ["let", "  a = 1;", "in", "let", "  b = a;", "in"],
    "chain3": ["let", "  a = 1;", "in", "let", "  b = a;", "in", "let", "  c = b;", "in"],
    "chain4": ["let", "  a = 1;", "in", "let", "  b = a;", "in", "let", "  c = b;", "in", "let", "  d = c;", "in"],
}
BODIES = ["set", "call", "callrec"]


def render_file(header, head, let, body, kinds, decos):
    lines = []
    if header == "utf8":
        lines.append("# maintained by Jörg «x» ✓")
    elif header:
        lines.append("# header comment")
    lines += HEADS[head]
    lines += LETS[let]
    opener = {"set": "{", "call": "buildPythonPackage {", "callrec": "buildPythonPackage rec {"}[body]
    lines.append(opener)
    lines += render_members(kinds, decos, 1)
    lines.append("}")
    return "\n".join(lines) + "\n"


def _main_test(text):
    from nix_manipulator.cli.main import main

    old = sys.stdin
    sys.stdin = io.StringIO(text)
    buf = io.StringIO()
    try:
        with contextlib.redirect_stdout(buf), contextlib.redirect_stderr(io.StringIO()):
            try:
                rc = main(["test"])
            except SystemExit as e:
                rc = e.code
            except Exception as e:
                rc = "raised " + type(e).__name__
    finally:
        sys.stdin = old
    return buf.getvalue(), rc


def judge(spec):
    from nix_manipulator import parse

    text = render_file(*spec)
    head = spec[1]
    out = []
    erroneous = obs.has_error(text)
    if erroneous and head != "ml_formals":
        return text, [("printer-emitted-invalid-nix", f"the canonical printer produced text the grammar rejects: {text!r}")]
    try:
        src = parse(text)
        r = src.rebuild()
    except Exception as e:
        return text, [("raises", f"{type(e).__name__} on {text!r}")]
    if r != text:
        out.append(("not-reproduced", _first_diff(text, r)))
    if not erroneous:
        if src.contains_error:
            out.append(("flagged-erroneous", f"contains_error on valid text {text!r}"))
        so, rc = _main_test(text)
        if (so, rc) != ("OK\n", 0):
            out.append(("test-rejects-canonical", f"nima test: {so!r}/{rc!r} on {text!r}"))
    return text, out


def _first_diff(a, b):
    la, lb = a.split("\n"), b.split("\n")
    for i, (x, y) in enumerate(zip(la, lb)):
        if x != y:
            return f"line {i+1}: {x!r} became {y!r}; file: {a!r}"
    return f"length differs ({len(la)} vs {len(lb)} lines); file: {a!r} -> {b!r}"


def specs(tier):
    maxm = 3 if tier == "quick" else 4
    kinds_all = list(MEMBERS)
    out = []
    # (1) every member sequence up to maxm members, plain, in the three bodies
    for n in range(1, maxm + 1):
        for kinds in itertools.product(kinds_all, repeat=n):
            if n == maxm and tier == "quick" and len(set(kinds)) < n:
                continue
            for body in BODIES if n <= 2 else ["set"]:
                out.append((False, "none", "none", body, kinds, ()))
    # (2) decorations: up to 2 per file, on every 2- and 3-member sequence over a representative kind subset
    rep = ["scalar", "mllist", "nested", "call", "attrpath", "inherit", "istr", "with"]
    for n in (2, 3):
        for kinds in itertools.product(rep, repeat=n):
            if n == 3 and len(set(kinds)) < 2:
                continue
            positions = [(d, p) for d in DECOS for p in range(n)] + [(d, n) for d in ("own_comment", "blank_own_comment")]
            for k in (1, 2):
                for decos in itertools.combinations(positions, k):
                    if k == 2 and (n == 3 and tier == "quick") and decos[0][1] == decos[1][1]:
                        continue
                    if len({d for d, p in decos if p == decos[0][1]}) < len([1 for d, p in decos if p == decos[0][1]]):
                        continue
                    out.append((False, "none", "none", "set", kinds, decos))
    # (3) heads x lets x bodies x header over a representative set of member sequences
    seqs = [("scalar",), ("scalar", "mllist"), ("call", "nested", "with"), ("inherit", "attrpath", "istr"), ("string", "list1", "if", "empty"), ("utf8", "inherit_from", "istr", "mllist")]
    for header in (False, True, "utf8"):
        for head in HEADS:
            for let in LETS:
                for body in BODIES:
                    for kinds in seqs:
                        for decos in ((), (("own_comment", 0),), (("blank", 1), ("eol_comment", 0))):
                            if any(p >= len(kinds) for _, p in decos):
                                continue
                            out.append((header, head, let, body, kinds, decos))
    return out


def work(chunk):
    fails = []
    n = 0
    seen = 0
    for spec in chunk:
        n += 1
        text, found = judge(spec)
        for cls, detail in found:
            fails.append((cls, spec, detail))
    return n, fails


def spec_reductions(spec):
    header, head, let, body, kinds, decos = spec
    if header:
        yield (False, head, let, body, kinds, decos)
    if head != "none":
        yield (header, "none", let, body, kinds, decos)
    if let != "none":
        yield (header, head, "none", body, kinds, decos)
    if body != "set":
        yield (header, head, let, "set", kinds, decos)
    for i in range(len(decos)):
        yield (header, head, let, body, kinds, decos[:i] + decos[i + 1 :])
    if len(kinds) > 1:
        for i in range(len(kinds)):
            nk = kinds[:i] + kinds[i + 1 :]
            nd = tuple((d, p if p < i else p - 1) for d, p in decos if p != i)
            yield (header, head, let, body, nk, nd)


def run(prop: str, tier: str) -> core.Report:
    sp = specs(tier)
    chunks = [sp[i : i + 300] for i in range(0, len(sp), 300)]
    chunks = core.rotate(chunks, core.seed())
    res = core.pmap(work, chunks, chunksize=1)
    n = sum(r[0] for r in res)
    raw = [(cls, spec, detail) for r in res for cls, spec, detail in r[1]]
    memo = {}

    def fails(spec, cls):
        k = (spec, cls)
        if k not in memo:
            memo[k] = any(c == cls for c, _ in judge(spec)[1])
        return memo[k]

    fl = {}
    for cls, spec, detail in raw:
        memo[(spec, cls)] = True
    minimal_memo = {}

    def minimal(spec, cls):
        """minimal failing derivations reachable by removing parts (evaluated on demand: the reduced
        derivations need not be members of the enumerated plan)"""
        k = (spec, cls)
        if k in minimal_memo:
            return minimal_memo[k]
        minimal_memo[k] = frozenset()
        smaller = [s2 for s2 in spec_reductions(spec) if fails(s2, cls)]
        res = frozenset([spec]) if not smaller else frozenset().union(*[minimal(s2, cls) for s2 in smaller])
        minimal_memo[k] = res
        return res

    budget = 3000  # raw failures minimised (flood control); the rest are reported raw if nothing was found
    for cls, spec, detail in raw[:budget]:
        for m in minimal(spec, cls):
            sig = f"{cls}|{m!r}"
            if sig not in fl:
                det = next((d for c, d in judge(m)[1] if c == cls), detail)
                fl[sig] = core.Failure(prop="C02", sig=sig, cls=cls, case={"kind": "c02", "spec": _enc(m), "text": render_file(*m)}, detail=det, group=cls)
    cov = {
        "evaluations": n,
        "distinct_nontrivial": len(set(sp)),
        "rule": f"derivations of the canonical-layout printer: all member sequences up to {3 if tier=='quick' else 4} members over {len(MEMBERS)} member kinds in 3 body shapes; up to 2 decorations (own-line comment, blank line, end-of-line comment, RFC block comment, blank+comment) on every 2-3-member sequence over 8 representative kinds; 5 lambda heads x 3 let blocks x 3 bodies x header comment over 5 representative sequences; distinct = distinct derivations",
        "samples": [render_file(*s) for s in core.pick_samples(sp, 3)],
        "exhaustive": True,
        "raw_failures": len(raw),
    }
    return core.Report(prop="C02", level="exploration", coverage=cov, failures=sorted(fl.values(), key=lambda f: f.sig), assumptions=["canonicity is defined by the printer in nixmc/props/c02.py (nixfmt is not installed); every production is anchored to a nixfmt-validated literal of the repository's tests or to RFC 0166 (table in the module docstring)", "multi-line formals need a trailing comma, which the pinned grammar rejects: those files only exercise the pass-through half", "a failing derivation is reported only if no derivation with one part removed fails the same way"])


def _enc(spec):
    header, head, let, body, kinds, decos = spec
    return [header, head, let, body, list(kinds), [list(d) for d in decos]]


def replay(case, prop):
    header, head, let, body, kinds, decos = case["spec"]
    spec = (header, head, let, body, tuple(kinds), tuple(tuple(d) for d in decos))
    a, b = judge(spec), judge(spec)
    if a != b:
        raise SystemExit("non-deterministic replay")
    return bool(a[1]), f"{a[1]}"
