"""C06 = (a) E1 sweep under the property's precondition + (b) every text emitted by the E2 edit explorer."""
from __future__ import annotations

from .. import core
from . import e1, e2props


def run(prop: str, tier: str) -> core.Report:
    a = e1.run("C06", tier)
    b = e2props.run("C06", tier)
    cov = dict(a.coverage)
    cov["evaluations"] = a.coverage["evaluations"] + b.coverage["transitions"]
    cov["distinct_nontrivial"] = a.coverage["distinct_nontrivial"] + b.coverage["states"]
    cov["rule"] = a.coverage["rule"] + " || (b) plus every text emitted by a successful set/rm transition of the E2 edit-history explorer (states = distinct edit states; see edit_outputs)"
    cov["samples"] = list(a.coverage["samples"])[:4] + list(b.coverage["samples"])[:2]
    cov["edit_outputs"] = {k: b.coverage[k] for k in ("states", "transitions", "plans", "raw_failing_transitions")}
    return core.Report(prop="C06", level="exploration", coverage=cov, failures=a.failures + b.failures, assumptions=a.assumptions + b.assumptions[1:])


def replay(case: dict, prop: str):
    if case.get("kind") == "e1":
        return e1.replay(case, prop)
    return e2props.replay(case, prop)
