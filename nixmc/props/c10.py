"""C10 (resolution follows Nix scoping or fails explicitly) and C11 (editing through a reference).

(a) all scope nestings up to a depth bound (nixmc.scopes) against the reference resolver;
(b) BFS over create/resolve/drop histories of several documents in one process: the identity-keyed
    context registry must never serve another document's chain (address reuse is forced).
"""
from __future__ import annotations

import collections
import gc
import itertools

from .. import core, obs, scopes as sc

APPLIED = {"formals_arg", "formals_default", "lam_arg", "formals_idarg"}
LETS = {"let_a", "let_alias", "let_none", "let_selfcycle", "let_2cycle"}


def _applied_body(call):
    """If `call` applies a literal function definition, return its body with the call's scopes attached
    (what a container does for its values), else None."""
    from nix_manipulator.expressions.function.call import FunctionCall
    from nix_manipulator.expressions.function.definition import FunctionDefinition
    from nix_manipulator.expressions.parenthesis import Parenthesis
    from nix_manipulator.resolution import attach_resolution_context

    if not isinstance(call, FunctionCall):
        return None
    fn = call.name
    while isinstance(fn, Parenthesis):
        fn = fn.value
    if not isinstance(fn, FunctionDefinition) or fn.output is None:
        return None
    attach_resolution_context(fn.output, owner=call)
    return fn.output


def navigate(p: sc.Program, src=None, keys=None):
    """Reach the reference through the document. -> (source, Identifier-like object), or raises Unreachable"""
    from nix_manipulator import parse

    if src is None:
        src = parse(p.text)
    cur = src
    body = _applied_body(src.expr)
    if body is not None:
        cur = body
    for k in (p.keys if keys is None else keys):
        if not hasattr(cur, "__getitem__"):
            raise Unreachable(f"{type(cur).__name__} is not subscriptable")
        cur = cur[k]
        body = _applied_body(cur)
        if body is not None:
            cur = body
    return src, cur


class Unreachable(Exception):
    pass


def literal_of(v, budget=50):
    """Follow identifier chains the way a user would (`.value` until a literal)."""
    while budget:
        budget -= 1
        name = type(v).__name__
        if name == "Identifier":
            v = v.value
            continue
        return getattr(v, "value", None), name
    return "<chain too long>", "?"


def observe(p: sc.Program):
    from nix_manipulator.exceptions import ResolutionError

    try:
        src, ref = navigate(p)
    except Unreachable as e:
        return ("unreachable", str(e))
    except ResolutionError as e:
        return ("reserr", "during traversal: " + str(e)[:60])
    except (KeyError, TypeError, ValueError) as e:
        return ("unreachable", f"traversal raised {type(e).__name__}: {str(e)[:60]}")
    except RecursionError:
        return ("exc", "RecursionError during traversal")
    if type(ref).__name__ != "Identifier":
        return ("unreachable", f"reached a {type(ref).__name__}, not a reference")
    try:
        val, tname = literal_of(ref)
        return ("value", val, tname)
    except ResolutionError as e:
        return ("reserr", str(e)[:60])
    except RecursionError:
        return ("exc", "RecursionError")
    except Exception as e:
        return ("exc", f"{type(e).__name__}: {str(e)[:60]}")


def judge(p: sc.Program):
    """-> (outcome_tag, [(cls, detail)])"""
    exp = sc.resolve(p)
    if exp[0] == "unbound-chain":
        exp = ("unbound",)  # for resolution both mean: no value can be designated
    got = observe(p)
    if got[0] == "unreachable":
        return "unreachable", []
    tag = f"{exp[0]}/{got[0]}"
    if exp[0] == "bound":
        if got[0] == "value":
            if got[1] == exp[1] and not isinstance(got[1], bool):
                return tag + "/right", []
            return tag + "/WRONG", [("wrong-value", f"{p.text!r}: Nix designates {exp[1]}, resolved to {got[1]!r}")]
        if got[0] == "reserr":
            if sc.is_core(p):
                return tag + "/refused-core", [("refused-bound", f"{p.text!r}: bound to {exp[1]} (core scoping constructs only) but ResolutionError: {got[1]}")]
            return tag + "/tolerated", []
        return tag, [("internal-error", f"{p.text!r}: {got[1]}")]
    # unbound / cycle / binder without value (unapplied formal) / set-valued
    if exp[0] == "set":
        return tag, []
    if got[0] == "reserr":
        return tag + "/right", []
    if got[0] == "value":
        return tag + "/WRONG", [("value-for-" + exp[0], f"{p.text!r}: the name is {exp[0]} under Nix scoping but resolved to {got[1]!r}")]
    return tag, [("internal-error-on-" + exp[0], f"{p.text!r}: {got[1]}")]


_memo: dict = {}


def judge_memo(levels, inner):
    k = (levels, inner)
    if k not in _memo:
        _memo[k] = judge(sc.build(levels, inner))
    return _memo[k]


def work_c10(chunk):
    tags = collections.Counter()
    fails = []
    n = 0
    for levels, inner in chunk:
        n += 1
        tag, found = judge_memo(levels, inner)
        tags[tag] += 1
        for cls, detail in found:
            # minimal: no nesting with one level removed fails the same way
            if any(any(c == cls for c, _ in judge_memo(l2, inner)[1]) for l2 in sc.level_reductions(levels)):
                continue
            fails.append((f"{cls}|{'/'.join(levels)}|{inner}", cls, {"kind": "c10", "levels": list(levels), "inner": inner, "text": sc.build(levels, inner).text}, detail))
    return n, tags, fails


# --------------------------------------------------------------------------- registry histories

REG_DOCS = [
    "let\n  a = 1;\nin\n{ x = a; }",
    "let\n  a = 2;\nin\n{ x = a; }",
    "rec { a = 3; x = a; }",
]


REG_OPS = [("create", i) for i in range(3)] + [("resolve", i) for i in range(3)] + [("drop", i) for i in range(3)] + [("churn",)]
REG_WANT = {0: 1, 1: 2, 2: 3}


def _reg_run(hist):
    """Execute one history from scratch. -> (violation text | None, address collisions)"""
    from nix_manipulator import parse
    from nix_manipulator.exceptions import ResolutionError
    from nix_manipulator.expressions.identifier import Identifier
    import nix_manipulator.resolution as R

    docs = {}
    retired_ids = set()
    collisions = 0
    bad = None
    for op in hist:
        if op[0] == "create":
            docs[op[1]] = parse(REG_DOCS[op[1]])
        elif op[0] == "resolve":
            d = docs.get(op[1])
            if d is None:
                continue
            ref = d["x"]
            retired_ids.add(id(ref))
            v = ref.value
            got = getattr(v, "value", None)
            del ref, v, d
            if got != REG_WANT[op[1]]:
                bad = f"document {op[1]} resolved x to {got!r}, its own binding is {REG_WANT[op[1]]}"
                break
        elif op[0] == "drop":
            if op[1] in docs:
                del docs[op[1]]
                gc.collect()
        elif op[0] == "churn":
            fresh = [Identifier(name="a") for _ in range(256)]
            for f in fresh:
                if id(f) in retired_ids:
                    collisions += 1
                if R.get_resolution_context(f) is not None:
                    bad = "a freshly constructed identifier already has a resolution context (stale registry entry served)"
                    break
                try:
                    f.value
                    bad = "a context-free identifier resolved to a value"
                    break
                except ResolutionError:
                    pass
            del fresh
            if bad:
                break
        for key, (wr, ctx) in list(R._CONTEXTS.items()):
            o = wr()
            if o is not None and id(o) != key:
                bad = f"registry entry {key} points to an object with id {id(o)}"
        if bad:
            break
    docs.clear()
    gc.collect()
    return bad, collisions


def _reg_live(h):
    live = set()
    for o in h:
        if o[0] == "create":
            live.add(o[1])
        elif o[0] == "drop":
            live.discard(o[1])
    return live


def registry_work(unit):
    """All histories of length <= `length` that start with `prefix`."""
    prefix, length = unit
    stats = collections.Counter()
    fails = []
    states = set()
    frontier = [prefix]
    bad, col = _reg_run(prefix)
    stats["histories"] += 1
    stats["steps"] += len(prefix)
    stats["collisions"] += col
    if bad:
        return stats, [(prefix, bad)], states
    while frontier:
        nxt = []
        for h in frontier:
            if len(h) >= length:
                continue
            live = _reg_live(h)
            for op in REG_OPS:
                if op[0] in ("resolve", "drop") and op[1] not in live:
                    continue
                if op[0] == "create" and op[1] in live:
                    continue
                h2 = h + (op,)
                stats["histories"] += 1
                stats["steps"] += len(h2)
                states.add((frozenset(live), op))
                bad, col = _reg_run(h2)
                stats["collisions"] += col
                if bad:
                    fails.append((h2, bad))
                else:
                    nxt.append(h2)
        frontier = nxt
    return stats, fails, states


def registry_histories(length):
    """BFS over sequences of {create i, resolve i, drop i, churn}; invariant after every step."""
    prefixes = [(("create", i), op) for i in range(3) for op in REG_OPS if not (op[0] in ("resolve", "drop") and op[1] != i) and op != ("create", i)]
    res = core.pmap(registry_work, [(p, length) for p in prefixes], chunksize=1)
    stats = collections.Counter()
    fails = []
    states = set()
    for s, f, st in res:
        stats.update(s)
        fails += f
        states |= st
    return stats, fails, len(states)


def run(prop: str, tier: str) -> core.Report:
    if prop == "C11":
        return run_c11(prop, tier)
    depth = 3 if tier == "quick" else 4
    kinds = sc.LEVEL_KINDS
    progs = []
    for n in range(0, depth + 1):
        ks = kinds if n <= 3 else [k for k in kinds if k not in ("let_none", "with_none", "rec_none", "assert", "let_2cycle", "let_z_is_a")]
        for levels in itertools.product(ks, repeat=n):
            if sum(1 for k in levels if k in sc.PASS_THROUGH) > 1:
                continue
            for inner in sc.INNER_SHAPES:
                progs.append((levels, inner))
    chunks = [progs[i : i + 400] for i in range(0, len(progs), 400)]
    chunks = core.rotate(chunks, core.seed())
    res = core.pmap(work_c10, chunks, chunksize=1)
    tags = collections.Counter()
    fl = []
    n = 0
    for k, t, f in res:
        n += k
        tags.update(t)
        for sig, cls, case, detail in f:
            fl.append(core.Failure(prop="C10", sig=sig, cls=cls, case=case, detail=detail, group=cls))
    rlen = 5 if tier == "quick" else 6
    rstats, rfails, rstates = registry_histories(rlen)
    for h, bad in rfails:
        hs = " ; ".join(" ".join(map(str, o)) for o in h)
        fl.append(core.Failure(prop="C10", sig=f"registry|{hs}", cls="registry-leak", case={"kind": "c10-registry", "history": [list(o) for o in h]}, detail=f"[{hs}] -> {bad}", group="registry"))
    judged = n - tags["unreachable"]
    cov = {
        "states": judged + rstates,
        "transitions": judged + rstats["steps"],
        "traces_validated_against_impl": judged + rstats["histories"],
        "samples": [sc.build(*p).text for p in core.pick_samples(progs, 5)] + ["registry history: create 0 ; resolve 0 ; drop 0 ; churn ; create 1 ; resolve 1"],
        "evaluations": n + rstats["histories"],
        "distinct_nontrivial": judged,
        "rule": f"(a) every nesting of <= {depth} levels over {len(kinds)} level kinds x {len(sc.INNER_SHAPES)} innermost shapes, the reference reached through the document and resolved with .value, judged against the reference resolver; non-trivial = reachable through the mapping API; (b) every history of length <= {rlen} over create/resolve/drop of 3 documents + churn (64 fresh identifiers), registry invariant after every step",
        "exhaustive": True,
        "programs": n,
        "unreachable_through_api": tags["unreachable"],
        "outcomes": dict(tags),
        "distinct_outcome_classes": len(tags),
        "registry": {"histories": rstats["histories"], "steps": rstats["steps"], "address_reuse_collisions": rstats["collisions"], "violations": len(rfails), "note": "on the pinned tree a stored context strongly references its scopes and, through Scope.owner, the whole document, so a document that was ever resolved is never freed and its addresses cannot be reused; the invariant is still checked after every step"},
    }
    return core.Report(prop="C10", level="model_checking", coverage=cov, failures=sorted(fl, key=lambda f: f.sig), assumptions=["reference resolver for Nix lexical scoping in nixmc/scopes.py (let recursive, rec sets, formals/arguments, with only as fallback, inherit)", "a ResolutionError on a bound name is a violation only when every level is a core scoping construct (docs/generation.md 'References'); elsewhere 'fails explicitly' is accepted", "applied-function bodies are reached with attach_resolution_context(body, owner=call) as the repository's own tests do; other unreachable shapes are counted, not judged", "a failing nesting is reported only if no nesting with one level removed fails the same way"])


# =========================================================================== C11

def edit_observe(p: sc.Program, mode: str):
    """-> ('ok', text) | ('err', type, msg) | ('unreachable', why)"""
    from nix_manipulator import parse
    from nix_manipulator.cli.manipulations import set_value

    if mode == "cli":
        if any(k in APPLIED for k in p.levels):
            return ("unreachable", "applied function: the CLI targets the argument set")
        try:
            return ("ok", set_value(parse(p.text), ".".join(p.keys), "77"))
        except Exception as e:
            return ("err", type(e).__name__, str(e)[:80])
    try:
        src, ref = navigate(p)
    except Unreachable as e:
        return ("unreachable", str(e))
    except Exception as e:
        return ("unreachable", f"traversal raised {type(e).__name__}")
    if type(ref).__name__ != "Identifier":
        return ("unreachable", "not a reference")
    try:
        ref.value = 77
        return ("ok", src.rebuild())
    except Exception as e:
        return ("err", type(e).__name__, str(e)[:80])


def history_differential(p: sc.Program):
    """API history: edit through the reference, change which names the enclosing set binds (delete
    or add `a` in the set that holds the reference), look the reference up again and edit through it
    a second time.  The live document must end up exactly like a freshly parsed copy of its own text
    taken after the structural change (no hand-written expectation). -> list of (cls, detail)"""
    from nix_manipulator import parse

    out = []
    for op2 in ("del-a", "add-a"):
        try:
            src, ref = navigate(p)
            if type(ref).__name__ != "Identifier":
                return []
            try:
                ref.value = 77
            except Exception:
                pass
            parent = navigate(p, src=src, keys=p.keys[:-1])[1] if len(p.keys) > 1 else src
            try:
                if op2 == "del-a":
                    del parent["a"]
                else:
                    parent["a"] = 55
            except Exception:
                continue  # this structural change does not apply to this shape
            mid = src.rebuild()

            def second(s):
                try:
                    r = navigate(p, src=s)[1]
                    if type(r).__name__ != "Identifier":
                        return ("not-a-reference", s.rebuild())
                    r.value = 78
                    return ("ok", s.rebuild())
                except Exception as e:
                    return ("raises:" + type(e).__name__, s.rebuild())

            live = second(src)
            fresh = second(parse(mid))
            # compare code tokens, not layout (layout fixed-point defects are C06's business)
            if (live[0], int_tokens(live[1])[1]) != (fresh[0], int_tokens(fresh[1])[1]):
                out.append(("live-vs-fresh-differs", f"{p.text!r}: after `ref.value = 77`, `{op2}` on the enclosing set and a second `ref.value = 78`: live document gives {live}, a fresh parse of {mid!r} gives {fresh}"))
        except Unreachable:
            return []
        except Exception:
            continue
    return out


def int_tokens(text):
    err, leaves = obs.lex(text)
    return err, [(l.type, l.text) for l in leaves if l.type != "comment"]


def judge_c11(p: sc.Program, mode: str):
    if mode == "api-history":
        found = history_differential(p)
        return ("history/differs" if found else "history/same"), found
    exp = sc.resolve(p)
    got = edit_observe(p, mode)
    if got[0] == "unreachable":
        return "unreachable", []
    err0, tin = int_tokens(p.text)
    if exp[0] == "bound":
        if exp[1] == sc.SAME:
            k = sc.same_ordinal(p, exp[2])
            want = list(tin)
            seen = -1
            for idx, (t, x) in enumerate(tin):
                if t == "integer_expression" and x == str(sc.SAME):
                    seen += 1
                    if seen == k:
                        want[idx] = (t, "77")
            label = f"occurrence {k} of the literal {sc.SAME} (innermost visible layer)"
        else:
            want = [(t, "77") if (t == "integer_expression" and x == str(exp[1])) else (t, x) for t, x in tin]
            label = f"the binding holding {exp[1]}"
    elif exp[0] == "unbound" and mode == "cli":
        # the binding at the path itself is overwritten: the reference token (value of x) becomes 77
        idx = _ref_token_index(p, tin)
        want = list(tin)
        if idx is not None:
            want[idx] = ("integer_expression", "77")
        label = "the binding at the path (name unbound)"
    else:
        return f"{exp[0]}/{got[0]}/not-judged", []
    if got[0] == "err":
        if mode == "cli":
            from .. import editmodel as em

            if em.expect(obs.attr_tree(p.text), "set", ".".join(p.keys), "77")[0] == "fail":
                return f"{exp[0]}/err/legit-refusal", []  # e.g. the path runs through a binding whose value is not a set literal
        if exp[0] == "bound" and not sc.is_core(p):
            return "bound/err/tolerated", []
        return f"{exp[0]}/err", [("edit-refused", f"{p.text!r} [{mode}]: expected to rewrite {label}; raised {got[1]}: {got[2]}")]
    err1, tout = int_tokens(got[1])
    if err1:
        return "invalid", [("output-invalid", f"{p.text!r} [{mode}] -> {got[1]!r}")]
    if tout == want:
        return f"{exp[0]}/ok/right", []
    changed = [(a, b) for a, b in zip(tin, tout) if a != b] if len(tin) == len(tout) else "token count changed"
    return f"{exp[0]}/ok/WRONG", [("wrong-binding-edited", f"{p.text!r} [{mode}]: expected to rewrite {label}; got {got[1]!r} (changed: {changed})")]


def _ref_token_index(p, tin):
    # the reference is the identifier that is the value of the last key: `<key> = <ref> ;`
    key = p.keys[-1]
    for i in range(len(tin) - 3):
        if tin[i][1] == key and tin[i + 1][1] == "=" and tin[i + 2][1] == p.ref_name and tin[i + 3][1] == ";":
            return i + 2
    return None


_memo11: dict = {}


def judge11_memo(levels, inner, mode):
    k = (levels, inner, mode)
    if k not in _memo11:
        _memo11[k] = judge_c11(sc.build(levels, inner), mode)
    return _memo11[k]


C11_INNERS = ["plain", "plain_a", "rec_a", "nested_plain_a", "nested_rec_a", "chain_in_rec", "rec_inherit_from_shadowed"]


def work_c11(chunk):
    tags = collections.Counter()
    fails = []
    n = 0
    for levels, inner, mode in chunk:
        n += 1
        tag, found = judge11_memo(levels, inner, mode)
        tags[mode + ":" + tag] += 1
        for cls, detail in found:
            if any(any(c == cls for c, _ in judge11_memo(l2, inner, mode)[1]) for l2 in sc.level_reductions(levels)):
                continue
            fails.append((f"{cls}|{mode}|{'/'.join(levels)}|{inner}", cls, {"kind": "c11", "levels": list(levels), "inner": inner, "mode": mode, "text": sc.build(levels, inner).text}, detail))
    return n, tags, fails


def run_c11(prop, tier):
    depth = 3 if tier == "quick" else 4
    items = []
    for n in range(0, depth + 1):
        ks = sc.LEVEL_KINDS if n <= 3 else [k for k in sc.LEVEL_KINDS if k not in ("let_none", "with_none", "rec_none", "assert", "let_2cycle", "let_z_is_a")]
        for levels in itertools.product(ks, repeat=n):
            if sum(1 for k in levels if k in sc.PASS_THROUGH) > 1:
                continue
            for inner in C11_INNERS:
                for mode in ("cli", "api", "api-history"):
                    if mode == "api-history" and n > 2:
                        continue  # histories on nestings of depth <= 2
                    items.append((levels, inner, mode))
    chunks = [items[i : i + 400] for i in range(0, len(items), 400)]
    chunks = core.rotate(chunks, core.seed())
    res = core.pmap(work_c11, chunks, chunksize=1)
    tags = collections.Counter()
    fl = []
    n = 0
    for k, t, f in res:
        n += k
        tags.update(t)
        for sig, cls, case, detail in f:
            fl.append(core.Failure(prop="C11", sig=sig, cls=cls, case=case, detail=detail, group=cls))
    judged = n - sum(v for k, v in tags.items() if k.endswith("unreachable"))
    cov = {
        "states": max(judged, 1),
        "transitions": max(judged, 1),
        "traces_validated_against_impl": judged,
        "samples": [{"text": sc.build(l, i).text, "mode": m, "edit": "set x 77" if m == "cli" else "ref.value = 77"} for l, i, m in core.pick_samples(items, 5)],
        "evaluations": n,
        "distinct_nontrivial": judged,
        "rule": f"every nesting of <= {depth} levels x {len(C11_INNERS)} innermost shapes x (CLI set through the path | assignment through Identifier.value | API history: edit, delete/add the name in the enclosing set, edit again - live document vs fresh parse); every literal in a program is unique, so the one token that may change is named by the reference resolver; non-trivial = edit reachable",
        "exhaustive": True,
        "outcomes": dict(tags),
        "distinct_outcome_classes": len(tags),
    }
    return core.Report(prop="C11", level="model_checking", coverage=cov, failures=sorted(fl, key=lambda f: f.sig), assumptions=["reference resolver in nixmc/scopes.py", "binders without a value (unapplied formals), cycles and API assignment on unbound names are not judged (the statement does not define them)", "an explicit refusal on a bound name is tolerated outside the core scoping constructs"])


def replay(case, prop):
    if case["kind"] == "c10":
        p = sc.build(tuple(case["levels"]), case["inner"])
        a, b = judge(p), judge(p)
        if a != b:
            raise SystemExit("non-deterministic replay")
        return bool(a[1]), f"{a}"
    if case["kind"] == "c11":
        p = sc.build(tuple(case["levels"]), case["inner"])
        a, b = judge_c11(p, case["mode"]), judge_c11(p, case["mode"])
        if a != b:
            raise SystemExit("non-deterministic replay")
        return bool(a[1]), f"{a}"
    stats, fails, _ = registry_histories(len(case["history"]))
    return bool(fails), f"{fails[:3]}"
