"""C12 - attribute names in paths are written and matched faithfully.

Exhaustive over all names up to a length bound over a 16-character alphabet (+ keywords), every
legal spelling of each, 1- and 2-segment paths; and over all short path texts for the
malformed side (reference tokenizer = nixmc.editmodel.parse_path).
"""
from __future__ import annotations

import collections
import itertools
import re

from .. import core, editmodel as em, obs

CH = ["a", "1", "_", "'", "-", ".", '"', "\\", "$", "{", "}", " ", "\n", "\r", "\t", "é", "@"]
KW = ["if", "then", "else", "let", "in", "with", "assert", "rec", "inherit", "or", "true", "false", "null", "import"]
PATH_CH = ["a", ".", '"', "\\", "@", "1", "\n"]
NIX_KEYWORDS = {"if", "then", "else", "let", "in", "with", "assert", "rec", "inherit"}  # cannot be bare attribute names


def spellings(name: str):
    """(kind, path segment text) for every way the documented NPath grammar can spell `name`."""
    out = []
    if em.IDENT.fullmatch(name):
        out.append(("bare", name))
    q = name.replace("\\", "\\\\").replace('"', '\\"')
    out.append(("quoted", '"' + q + '"'))
    if any(c in name for c in "\n\r\t"):
        out.append(("quoted-esc", '"' + q.replace("\n", "\\n").replace("\r", "\\r").replace("\t", "\\t") + '"'))
    return out


def file_spellings(name: str):
    """Ways the *file* may already spell the attribute name."""
    out = []
    if re.fullmatch(r"[A-Za-z_][A-Za-z0-9_'-]*", name) and name not in NIX_KEYWORDS:
        out.append(("file-bare", name))
    q = name.replace("\\", "\\\\").replace('"', '\\"').replace("${", "\\${").replace("\n", "\\n").replace("\r", "\\r").replace("\t", "\\t")
    out.append(("file-quoted", '"' + q + '"'))
    return out


def _set(text, path, value):
    from nix_manipulator import parse
    from nix_manipulator.cli.manipulations import set_value

    try:
        return ("ok", set_value(parse(text), path, value))
    except Exception as e:
        return ("err", type(e).__name__, str(e)[:100])


def _rm(text, path):
    from nix_manipulator import parse
    from nix_manipulator.cli.manipulations import remove_value

    try:
        return ("ok", remove_value(parse(text), path))
    except Exception as e:
        return ("err", type(e).__name__, str(e)[:100])


def check_name(name: str):
    """-> (evaluations, [(cls, kind, detail)])"""
    out = []
    n = 0
    sps = spellings(name)
    for kind, sp in sps:
        # (1) one-segment path on { }
        n += 1
        r = _set("{ }", sp, "1")
        if r[0] != "ok":
            out.append(("set-refused", kind, f"set {sp!r} on {{ }} raised {r[1]}: {r[2]}"))
            continue
        v = obs.attr_tree(r[1])
        if v.status != "ok":
            out.append(("output-" + v.status, kind, f"set {sp!r} -> {r[1]!r}"))
            continue
        keys = list(v.tree.keys())
        if keys != [name] or v.tree[name] != ["leaf", "1"]:
            out.append(("wrong-name", kind, f"set {sp!r} -> {r[1]!r}; Nix reads the keys as {keys!r}, intended {[name]!r}"))
            continue
        text1 = r[1]
        # (2) any equivalent spelling finds the same binding
        for kind2, sp2 in sps:
            n += 2
            r2 = _set(text1, sp2, "2")
            if r2[0] != "ok":
                out.append(("second-set-refused", kind + "+" + kind2, f"{text1!r}: set {sp2!r} raised {r2[1]}"))
            else:
                v2 = obs.attr_tree(r2[1])
                if v2.status != "ok" or obs.plain(v2.tree) != {name: "2"}:
                    out.append(("second-set-duplicates" if v2.status == "dup" or len(v2.tree or {}) > 1 else "second-set-wrong", kind + "+" + kind2, f"{text1!r}: set {sp2!r} 2 -> {r2[1]!r}"))
            r3 = _rm(text1, sp2)
            if r3[0] != "ok":
                out.append(("rm-refused", kind + "+" + kind2, f"{text1!r}: rm {sp2!r} raised {r3[1]}: {r3[2]}"))
            else:
                v3 = obs.attr_tree(r3[1])
                if v3.status != "ok" or v3.tree != {}:
                    out.append(("rm-wrong", kind + "+" + kind2, f"{text1!r}: rm {sp2!r} -> {r3[1]!r}"))
        # scope-prefixed: the selector prefix must not disturb (or be disturbed by) the name
        n += 1
        r5 = _set("let q = 1; in let q = 1; in { }", "@" + sp, "1")
        if r5[0] != "ok":
            out.append(("scoped-set-refused", kind, f"set {'@' + sp!r} on two let layers raised {r5[1]}: {r5[2]}"))
        else:
            v5 = obs.attr_tree(r5[1])
            if v5.status != "ok" or len(v5.layers) != 2 or obs.plain(v5.layers[1]) != {"q": "1", name: "1"} or obs.plain(v5.layers[0]) != {"q": "1"}:
                out.append(("scoped-set-wrong", kind, f"set {'@' + sp!r} -> {r5[1]!r}"))
        # two-segment paths: name below and above a plain segment; split only at unquoted dots
        for path, want in ((f"x.{sp}", {"x": {name: "1"}}), (f"{sp}.x", {name: {"x": "1"}})):
            n += 1
            r4 = _set("{ }", path, "1")
            if r4[0] != "ok":
                out.append(("set-refused-2seg", kind, f"set {path!r} raised {r4[1]}: {r4[2]}"))
                continue
            v4 = obs.attr_tree(r4[1])
            if v4.status != "ok":
                out.append(("output-" + v4.status + "-2seg", kind, f"set {path!r} -> {r4[1]!r}"))
            elif obs.plain(v4.tree) != want:
                out.append(("wrong-nesting", kind, f"set {path!r} -> {r4[1]!r}; read back {obs.plain(v4.tree)!r}, intended {want!r}"))
    # (3) spellings already in the file x path spellings
    for fkind, fsp in file_spellings(name):
        doc = "{ " + fsp + " = 1; }"
        v0 = obs.attr_tree(doc)
        if v0.status != "ok" or list(v0.tree.keys()) != [name]:
            continue  # this spelling does not denote `name` for the grammar (not in the domain)
        for kind, sp in sps:
            n += 2
            r = _set(doc, sp, "2")
            if r[0] != "ok":
                out.append(("existing-set-refused", fkind + "+" + kind, f"{doc!r}: set {sp!r} raised {r[1]}"))
            else:
                v = obs.attr_tree(r[1])
                if v.status != "ok" or obs.plain(v.tree) != {name: "2"}:
                    out.append(("existing-duplicated" if (v.status == "dup" or len(v.tree or {}) > 1) else "existing-set-wrong", fkind + "+" + kind, f"{doc!r}: set {sp!r} 2 -> {r[1]!r}"))
            r = _rm(doc, sp)
            if r[0] != "ok":
                out.append(("existing-rm-refused", fkind + "+" + kind, f"{doc!r}: rm {sp!r} raised {r[1]}: {r[2]}"))
            else:
                v = obs.attr_tree(r[1])
                if v.status != "ok" or v.tree != {}:
                    out.append(("existing-rm-wrong", fkind + "+" + kind, f"{doc!r}: rm {sp!r} -> {r[1]!r}"))
    return n, out


DEEP_DOC = "let q = 1; in let q = 1; in let q = 1; in let q = 1; in let q = 1; in let q = 1; in { }"


def check_path_text(p: str):
    """Accepted iff the reference tokenizer accepts. -> [(cls, detail)]"""
    try:
        d, segs = em.parse_path(p)
        ok = True
    except em.Undocumented:
        return []  # not settled by the documented grammar: either behaviour is accepted
    except em.Malformed as e:
        ok = False
        why = str(e)
    r = _set(DEEP_DOC, p, "1")
    if ok:
        if r[0] != "ok":
            return [("rejects-wellformed", f"path {p!r} is well-formed (depth {d}, segments {segs}) but set raised {r[1]}: {r[2]}")]
        return []
    if r[0] == "ok":
        return [("accepts-malformed", f"path {p!r} is malformed ({why}) but set succeeded -> {r[1]!r}")]
    if r[1] not in ("ValueError", "NixSyntaxError"):
        return [("malformed-wrong-exception", f"path {p!r}: raised {r[1]}")]
    return []


def _name_fails(name, cls, kind):
    try:
        return any(c == cls and k == kind for c, k, _ in check_name(name)[1])
    except Exception:
        return False


def work(unit):
    what, items = unit
    n = 0
    fails = []
    if what == "names":
        for name in items:
            k, out = check_name(name)
            n += k
            for cls, kind, detail in out:
                # minimal: no name obtained by deleting one character fails the same way
                shorter = [name[:i] + name[i + 1 :] for i in range(len(name))] if len(name) > 1 and name not in KW else []
                if any(s and _name_fails(s, cls, kind) for s in shorter):
                    continue
                fails.append((f"{cls}|{kind}|{name!r}", cls, {"kind": "c12-name", "name": name}, detail, f"{cls}"))
    else:
        for p in items:
            n += 1
            for cls, detail in check_path_text(p):
                shorter = [p[:i] + p[i + 1 :] for i in range(len(p))] if len(p) > 1 else []
                if any(any(c == cls for c, _ in check_path_text(s)) for s in shorter if s):
                    continue
                fails.append((f"{cls}|{p!r}", cls, {"kind": "c12-path", "path": p}, detail, cls))
    return n, len(items), fails


def run(prop: str, tier: str) -> core.Report:
    L = 3 if tier == "quick" else 4
    PL = 5 if tier == "quick" else 6
    names = ["".join(c) for n in range(1, L + 1) for c in itertools.product(CH, repeat=n)] + KW
    paths = ["".join(c) for n in range(1, PL + 1) for c in itertools.product(PATH_CH, repeat=n)]
    units = [("names", names[i : i + 40]) for i in range(0, len(names), 40)] + [("paths", paths[i : i + 200]) for i in range(0, len(paths), 200)]
    units = core.rotate(units, core.seed())
    res = core.pmap(work, units, chunksize=1)
    evals = sum(r[0] for r in res)
    items = sum(r[1] for r in res)
    fl = [core.Failure(prop="C12", sig=s, cls=c, case=case, detail=d, group=g) for r in res for s, c, case, d, g in r[2]]
    cov = {
        "evaluations": evals,
        "distinct_nontrivial": items,
        "rule": f"all {len(names)} names (strings of length <= {L} over {CH!r} + keywords) x every legal spelling x (set on empty set, second set / rm with every equivalent spelling, 2-segment paths, spellings already present in the file); all {len(paths)} path texts of length <= {PL} over {PATH_CH!r} against the reference NPath tokenizer; distinct = distinct names + path texts",
        "samples": core.pick_samples(names, 4) + core.pick_samples(paths, 3),
        "exhaustive": True,
        "names": len(names),
        "path_texts": len(paths),
    }
    return core.Report(prop="C12", level="exploration", coverage=cov, failures=sorted(fl, key=lambda f: f.sig), assumptions=["independent Nix string decoder (nixmc.obs.decode_string_node) reads names back from the CST of the output", "reference NPath tokenizer nixmc.editmodel.parse_path (documented grammar, fullmatch on bare segments)", "failing names are reported only if no name with one character deleted fails the same way"])


def replay(case, prop):
    if case["kind"] == "c12-name":
        a, b = check_name(case["name"]), check_name(case["name"])
        if a != b:
            raise SystemExit("non-deterministic replay")
        return bool(a[1]), f"{a[1]}"
    a, b = check_path_text(case["path"]), check_path_text(case["path"])
    if a != b:
        raise SystemExit("non-deterministic replay")
    return bool(a), f"{a}"
