"""C13 - values built programmatically render to Nix denoting the same value.

Exhaustive over a bounded space of nested Python values x construction contexts; the emitted text
is read back into Python data by an independent CST reader.
"""
from __future__ import annotations

import itertools
import math

from .. import core, obs

STR_CH = ["a", '"', "\\", "$", "{", "'", "#", "\n", "\r", "\t", "\x7f", "é", " "]  # NUL is left out: Nix strings cannot hold it
INTS = [0, 1, -1, 2**63, -7]
FLOATS = [0.0, -0.0, 1.5, -2.5, 1e-7, 1e16, 1e22, 5e-324, 123456.789, -1e-7, -1e22, 1e-10, 2.5e20, 1e100]  # sign x {plain, exponent} spellings; exponents ending in 0
CONSTS = [True, False, None]
REP = ["a", 'q"\\', "$", "'' ", "\n\t", "", 1, -1, 2**63, True, None, 1.5, -2.5, 1e-7, -1e-7]
KEYS = ["a", "b'", "_c"]


class Unreadable(Exception):
    pass


def read_node(n):
    t = n.type
    if t == "parenthesized_expression":
        return read_node(n.child_by_field_name("expression"))
    if t == "integer_expression":
        return int(n.text)
    if t == "float_expression":
        return float(n.text)
    if t == "variable_expression":
        s = n.text.decode()
        if s in ("true", "false"):
            return s == "true"
        if s == "null":
            return None
        raise Unreadable("identifier " + s)
    if t == "unary_expression":
        op = n.child_by_field_name("operator").text.decode()
        arg = read_node(n.child_by_field_name("argument"))
        if op == "-" and isinstance(arg, (int, float)) and not isinstance(arg, bool):
            return -arg
        raise Unreadable("unary " + op)
    if t == "string_expression":
        if any(c.type == "interpolation" for c in n.children):
            raise Unreadable("interpolation")
        return obs.decode_string_node(n)
    if t == "list_expression":
        return [read_node(c) for c in n.named_children if c.type != "comment"]
    if t in ("attrset_expression", "rec_attrset_expression"):
        out = {}
        items = []
        for ch in n.named_children:
            items.extend(ch.named_children if ch.type == "binding_set" else [ch])
        for it in items:
            if it.type != "binding":
                raise Unreadable(it.type)
            ap = it.child_by_field_name("attrpath")
            names = [obs._attr_name(a) for a in ap.named_children]
            val = read_node(it.child_by_field_name("expression"))
            cur = out
            for nm in names[:-1]:
                cur = cur.setdefault(nm, {})
                if not isinstance(cur, dict):
                    raise Unreadable("dup")
            if names[-1] in cur:
                raise Unreadable("duplicate key " + names[-1])
            cur[names[-1]] = val
        return out
    raise Unreadable(t)


def read_text(text):
    root = obs.cst(text)
    if root.has_error:
        raise Unreadable("syntax error")
    ch = [c for c in root.named_children if c.type != "comment"]
    if len(ch) != 1:
        raise Unreadable("not one expression")
    if ch[0].type == "let_expression":
        # context 'scope': the value lives in the let binding
        bs = ch[0].named_children[0]
        return read_node_letwrap(ch[0])
    return read_node(ch[0])


def read_node_letwrap(let):
    out = {}
    for ch in let.named_children:
        if ch.type == "binding_set":
            for it in ch.named_children:
                if it.type == "binding":
                    out[obs._attr_name(it.child_by_field_name("attrpath").named_children[0])] = read_node(it.child_by_field_name("expression"))
    return out


def same(a, b) -> bool:
    """Type-exact structural equality (True != 1, 1 != 1.0, -0.0 != 0.0, order of keys/elements kept)."""
    if type(a) is not type(b):
        return False
    if isinstance(a, float):
        return a == b and math.copysign(1, a) == math.copysign(1, b)
    if isinstance(a, list):
        return len(a) == len(b) and all(same(x, y) for x, y in zip(a, b))
    if isinstance(a, dict):
        return list(a.keys()) == list(b.keys()) and all(same(a[k], b[k]) for k in a)
    return a == b


# --------------------------------------------------------------------------- contexts

def ctx_from_dict(v):
    from nix_manipulator.expressions import AttributeSet

    return AttributeSet.from_dict({"k": v}).rebuild(), (lambda r: r["k"])


def ctx_set_ctor(v):
    from nix_manipulator.expressions import AttributeSet

    return AttributeSet({"k": v, "j": 1}).rebuild(), (lambda r: r["k"])


def ctx_binding(v):
    from nix_manipulator.expressions import Binding

    return "{ " + Binding(name="k", value=v).rebuild() + " }", (lambda r: r["k"])


def ctx_list(v):
    from nix_manipulator.expressions.list import NixList

    return NixList([v]).rebuild(), (lambda r: r[0])


def ctx_list2(v):
    from nix_manipulator.expressions.list import NixList

    return NixList([0, v, "z"]).rebuild(), (lambda r: r[1])


def ctx_setitem(v):
    from nix_manipulator import parse

    src = parse("{ }")
    src["k"] = v
    return src.rebuild(), (lambda r: r["k"])


def ctx_setitem_ml(v):
    from nix_manipulator import parse

    src = parse("{\n  j = 1;\n}\n")
    src["k"] = v
    return src.rebuild(), (lambda r: r["k"])


def ctx_setitem_over_one(v):
    """item assignment over an existing binding whose value is 1 (== True == 1.0 in Python)"""
    from nix_manipulator import parse

    src = parse("{ k = 1; j = 0; }")
    src["k"] = v
    return src.rebuild(), (lambda r: r["k"])


def ctx_setitem_over_zero(v):
    from nix_manipulator import parse

    src = parse("{ j = 1; k = 0; }")
    src["k"] = v
    return src.rebuild(), (lambda r: r["k"])


def ctx_setitem_over_list(v):
    from nix_manipulator import parse

    src = parse("{ k = [ 1 0 ]; }")
    src["k"] = v
    return src.rebuild(), (lambda r: r["k"])


def ctx_setitem_twice(v):
    """the same key assigned twice: first a neighbour value, then v"""
    from nix_manipulator import parse

    src = parse("{ }")
    src["k"] = {"a": 1}
    src["k"] = v
    return src.rebuild(), (lambda r: r["k"])


def ctx_scope(v):
    from nix_manipulator import parse

    src = parse("{ }")
    src.expr.scope["k"] = v
    return src.rebuild(), (lambda r: r["k"])


CONTEXTS = {"from_dict": ctx_from_dict, "set_ctor": ctx_set_ctor, "binding": ctx_binding, "list": ctx_list, "list3": ctx_list2, "setitem": ctx_setitem, "setitem_ml": ctx_setitem_ml, "scope": ctx_scope, "setitem_over_1": ctx_setitem_over_one, "setitem_over_0": ctx_setitem_over_zero, "setitem_over_list": ctx_setitem_over_list, "setitem_twice": ctx_setitem_twice}
LIST_CONTEXTS = ("list", "list3")


def in_domain(v, in_list=False):
    if isinstance(v, dict):
        return not in_list and all(in_domain(x) for x in v.values())
    if isinstance(v, list):
        return all(in_domain(x, True) for x in v)
    if isinstance(v, str):
        return "${" not in v
    return True


def check(ctx: str, v):
    """-> [(cls, detail)]"""
    import copy

    try:
        text, pick = CONTEXTS[ctx](copy.deepcopy(v))
        text2, _ = CONTEXTS[ctx](copy.deepcopy(v))
    except Exception as e:
        return [("raises:" + type(e).__name__, f"{ctx}({v!r}) raised {type(e).__name__}: {str(e)[:100]}")]
    out = []
    if text != text2:
        out.append(("nondeterministic", f"{ctx}({v!r}) rendered {text!r} then {text2!r}"))
    try:
        got = pick(read_text(text))
    except Unreadable as e:
        return out + [("invalid" if "syntax" in str(e) else "unreadable", f"{ctx}({v!r}) -> {text!r}: {e}")]
    except Exception as e:
        return out + [("unreadable", f"{ctx}({v!r}) -> {text!r}: {type(e).__name__} {e}")]
    if not same(got, v):
        out.append(("wrong-value", f"{ctx}({v!r}) -> {text!r} reads back as {got!r}"))
        return out
    from nix_manipulator import parse

    try:
        r2 = parse(text).rebuild()
        r3 = parse(r2).rebuild()
        if r3 != r2:
            out.append(("unstable", f"{ctx}({v!r}) -> {text!r}; re-parsed {r2!r} then {r3!r}"))
        else:
            got2 = pick(read_text(r2))
            if not same(got2, v):
                out.append(("reparse-changes-value", f"{ctx}({v!r}) -> {text!r}; re-parsed {r2!r} reads back as {got2!r}"))
    except Unreadable as e:
        out.append(("reparse-unreadable", f"{ctx}({v!r}) -> {text!r}; re-parse gives {e}"))
    except Exception as e:
        out.append(("reparse-raises", f"{ctx}({v!r}) -> {text!r}; {type(e).__name__}"))
    return out


def simpler(v):
    if isinstance(v, str):
        for i in range(len(v)):
            yield v[:i] + v[i + 1 :]
    elif isinstance(v, list):
        for x in v:
            yield x
            if len(v) > 1:
                yield [x]
    elif isinstance(v, dict):
        for k, x in v.items():
            yield x
            if len(v) > 1:
                yield {k: x}


def minimal_values(ctx, v, cls, _depth=0):
    """Minimal failing values reachable from v by the `simpler` relation (evaluated on demand: a
    simpler value need not be a member of the enumerated plan)."""
    smaller = [s for s in simpler(v) if in_domain(s, ctx in LIST_CONTEXTS) and any(c == cls for c, _ in check(ctx, s))]
    if not smaller or _depth > 6:
        return [v]
    out = []
    for s in smaller:
        for m in minimal_values(ctx, s, cls, _depth + 1):
            if not any(same(m, o) for o in out):
                out.append(m)
    return out


def work(items):
    n = 0
    fails = []
    for ctx, v in items:
        n += 1
        for cls, detail in check(ctx, v):
            for m in minimal_values(ctx, v, cls):
                det = next((d for c, d in check(ctx, m) if c == cls), detail)
                fails.append((f"{cls}|{ctx}|{m!r}", cls, {"kind": "c13", "ctx": ctx, "value": _enc(m)}, det, f"{cls}@{type(m).__name__}"))
    return n, fails


def _enc(v):
    if isinstance(v, float):
        return {"__float__": v.hex()}
    if isinstance(v, list):
        return [_enc(x) for x in v]
    if isinstance(v, dict):
        return {"__dict__": [[k, _enc(x)] for k, x in v.items()]}
    return v


def _dec(v):
    if isinstance(v, dict) and "__float__" in v:
        return float.fromhex(v["__float__"])
    if isinstance(v, dict) and "__dict__" in v:
        return {k: _dec(x) for k, x in v["__dict__"]}
    if isinstance(v, list):
        return [_dec(x) for x in v]
    return v


def values(tier):
    L = 2 if tier == "quick" else 3
    strs = [""] + ["".join(c) for n in range(1, L + 1) for c in itertools.product(STR_CH, repeat=n)]
    strs = [s for s in strs if "${" not in s]
    S = strs + INTS + CONSTS + FLOATS
    rep = REP if tier == "quick" else REP + [0.0, -0.0, 5e-324, 1e22, "\r", "\x7f", "é"]
    out = list(S) + [1.0, [1, 0], [True, False], [1.0, 0.0], {"a": 1}, {"a": True}, {"a": 1.0}]
    out += [[s] for s in S]
    out += [[a, b] for a in rep for b in rep]
    out += [[[s]] for s in rep] + [[a, [b]] for a in rep for b in rep] + [[a, b, c] for a in rep[:6] for b in rep[6:10] for c in rep[10:]]
    out += [{"a": s} for s in S]
    out += [{"a": [s]} for s in rep] + [{"a": {"_c": s}} for s in rep] + [{"a": a, "b'": b} for a in rep for b in rep]
    out += [{"a": {"_c": [a, [b]]}} for a in rep[:8] for b in rep[8:]]
    if tier != "quick":
        out += [[a, b, c] for a in rep for b in rep for c in rep]
        out += [{"a": a, "b'": {"_c": b}, "_c": [c]} for a in rep for b in rep for c in rep]
        out += [[[a, [b]], c] for a in rep for b in rep for c in rep]
    return S, out


def run(prop: str, tier: str) -> core.Report:
    S, vals = values(tier)
    items = []
    for v in vals:
        for ctx in CONTEXTS:
            if in_domain(v, ctx in LIST_CONTEXTS):
                items.append((ctx, v))
    chunks = [items[i : i + 500] for i in range(0, len(items), 500)]
    chunks = core.rotate(chunks, core.seed())
    res = core.pmap(work, chunks, chunksize=1)
    n = sum(r[0] for r in res)
    fl = [core.Failure(prop="C13", sig=s, cls=c, case=case, detail=d, group=g) for r in res for s, c, case, d, g in r[1]]
    cov = {
        "evaluations": n,
        "distinct_nontrivial": len(items),
        "rule": f"{len(vals)} nested Python values (incl. 1/True/1.0, 0/False/0.0, [1, 0]/[True, False], {{a: 1}}/{{a: True}} collisions under Python equality) (scalar alphabet of {len(S)}: all strings of length <= {2 if tier=='quick' else 3} over {STR_CH!r} without '${{', ints {INTS}, bools/None, floats {FLOATS}; lists and dicts to nesting 3, products over a representative scalar subset) x {len(CONTEXTS)} construction contexts; each (context, value) pair is distinct and non-trivial",
        "samples": [repr(x) for x in core.pick_samples(items, 6)],
        "exhaustive": True,
        "values": len(vals),
        "contexts": list(CONTEXTS),
    }
    return core.Report(prop="C13", level="exploration", coverage=cov, failures=sorted(fl, key=lambda f: f.sig), assumptions=["independent CST reader (own string unescaper, numeric literal reader, unary minus on literals, true/false/null)", "type-exact comparison (True != 1, 1 != 1.0, sign of zero)", "a failing value is reported only if no simpler value (element / sub-dict / string with one character deleted) fails the same way in the same context"])


def replay(case, prop):
    v = _dec(case["value"])
    a, b = check(case["ctx"], v), check(case["ctx"], v)
    if a != b:
        raise SystemExit("non-deterministic replay")
    return bool(a), f"{a}"
