"""C14 - the mapping API obeys dictionary laws and the rebuilt text agrees with it.

BFS over histories of item get/set/delete on the document, on a nested set reached through it
and on its scope mapping; a plain nested dict runs in lock-step as the reference model; after
every transition the three views (dict model, mapping lookups, attribute tree decoded from the
rebuilt text) must coincide.
"""
from __future__ import annotations

import collections
import copy
import hashlib

from .. import core, obs

DOCS = {
    "plain": "{ a = 1; c = 2; }",
    "plain-ml": "{\n  a = 1;\n  c = 2;\n}\n",
    "attrpath": "{ a.b = 1; c = 2; }",
    "attrpath2": "{\n  a.b = 1;\n  a.d = 3;\n  c = 2;\n}\n",
    "nested": "{ a = { b = 1; }; c = 2; }",
    "nested-ml": "{\n  a = {\n    b = 1;\n  };\n  c = 2;\n}\n",
    "scoped": "let\n  u = 1;\nin\n{ a = 1; c = 2; }",
    "scoped-attrpath": "let\n  u.v = 1;\n  w = 2;\nin\n{ a.b = 1; c = 2; }",
    "lambda": "{ p }: { a = 1; c = 2; }",
    "lambda-attrpath": "{ p }:\n{\n  a.b = 1;\n  c = 2;\n}\n",
    "empty": "{ }",
    "rec": "rec { a = 1; c = 2; }",
    "deep": "{ a.b.e = 1; c = 2; }",
    # the body is a name bound in the let layer: the document mapping must follow the *current* binding
    "scoped-ident": "let\n  u = { a = 1; c = 2; };\nin\nu",
}
SIMPLER = {
    "plain-ml": ["plain"], "attrpath2": ["attrpath"], "nested-ml": ["nested"], "scoped-attrpath": ["scoped", "attrpath"],
    "lambda-attrpath": ["lambda", "attrpath"], "lambda": ["plain"], "rec": ["plain"], "scoped": ["plain"], "deep": ["attrpath"],
    "attrpath": ["nested"],
}
KEYS = ["a", "c", "z"]
NKEYS = ["b", "z"]
SKEYS = ["u", "z"]
VALUES = [5, {"k": 1}]
THOROUGH_VALUES = [5, {"k": 1}, "s", [1, 2]]


def ops(values):
    out = []
    for k in KEYS:
        out.append(("get", k))
        out.append(("del", k))
        for v in values:
            out.append(("set", k, v))
    for k in NKEYS:
        out.append(("nget", "a", k))
        out.append(("ndel", "a", k))
        out.append(("nset", "a", k, 7))
    out.append(("nset", "c", "z", 7))
    for k in SKEYS:
        out.append(("sget", k))
        out.append(("sdel", k))
        out.append(("sset", k, 8))
    out.append(("sset", "u", {"a": 5}))  # rebinding the name to another set
    return out


def vtokens(v):
    """Token-string form of a Python value as the text decoder reports it."""
    if isinstance(v, dict):
        return {k: vtokens(x) for k, x in v.items()}
    if isinstance(v, bool):
        return "true" if v else "false"
    if isinstance(v, int):
        return str(v)
    if isinstance(v, str):
        return '" ' + v + ' "'
    if isinstance(v, list):
        return "[ " + " ".join(vtokens(x) for x in v) + " ]"
    raise TypeError(v)


def show_op(op):
    return " ".join(str(x) for x in op)


def _ident_body(text):
    """`let … in NAME` where NAME is bound to a set literal in that let: -> (layer dict, NAME) or None"""
    root = obs.cst(text)
    if root.has_error:
        return None
    ch = [c for c in root.named_children if c.type != "comment"]
    if len(ch) != 1 or ch[0].type != "let_expression":
        return None
    body = ch[0].child_by_field_name("body")
    if body is None or body.type != "variable_expression":
        return None
    try:
        layer = obs.plain(obs.decode_set(ch[0]))
    except obs.Dup:
        return None
    return layer, body.text.decode()


class RefModel(dict):
    """dict model whose 'body' is whatever the scope currently binds `ref` to"""

    def __getitem__(self, k):
        if k == "body" and "ref" in self:
            b = dict.__getitem__(self, "scope").get(dict.__getitem__(self, "ref"))
            return b if isinstance(b, dict) else _NOBODY
        return dict.__getitem__(self, k)


class _NoBody(dict):
    pass


_NOBODY = _NoBody()


def model_of(text):
    ib = _ident_body(text)
    if ib is not None:
        return RefModel({"scope": ib[0], "outer": [], "ref": ib[1]})
    v = obs.attr_tree(text)
    if v.status != "ok":
        return None
    layers = [obs.plain(l) for l in v.layers]
    return {"body": obs.plain(v.tree), "scope": layers[-1] if layers else {}, "outer": layers[:-1]}


def step_model(m, op):
    """-> ('ok', value-or-None) | ('raise',) ; mutates m on success"""
    kind = op[0]
    if kind in ("get", "set", "del"):
        d = m["body"]
        k = op[1]
        if d is _NOBODY:
            return ("raise", "nonmapping")
    elif kind in ("sget", "sset", "sdel"):
        d = m["scope"]
        k = op[1]
    else:
        if m["body"] is _NOBODY:
            return ("raise", "nonmapping")
        parent = m["body"].get(op[1])
        if not isinstance(parent, dict):
            return ("raise", "nonmapping")
        d = parent
        k = op[2]
    if kind.endswith("get"):
        if k not in d:
            return ("raise",)
        return ("ok", d[k])
    if kind.endswith("del"):
        if k not in d:
            return ("raise",)
        del d[k]
        return ("ok", None)
    d[k] = vtokens(op[-1])
    return ("ok", None)


def step_impl(src, op):
    kind = op[0]
    try:
        if kind == "get":
            return ("ok", src[op[1]])
        if kind == "set":
            src[op[1]] = copy.deepcopy(op[2])
            return ("ok", None)
        if kind == "del":
            del src[op[1]]
            return ("ok", None)
        if kind == "nget":
            return ("ok", src[op[1]][op[2]])
        if kind == "nset":
            src[op[1]][op[2]] = op[3]
            return ("ok", None)
        if kind == "ndel":
            del src[op[1]][op[2]]
            return ("ok", None)
        target = _scope_owner(src)
        if kind == "sget":
            return ("ok", target.scope[op[1]])
        if kind == "sset":
            target.scope[op[1]] = op[2]
            return ("ok", None)
        if kind == "sdel":
            del target.scope[op[1]]
            return ("ok", None)
    except Exception as e:
        return ("raise", type(e).__name__, str(e)[:100])
    raise AssertionError(op)


def _scope_owner(src):
    """The expression whose `.scope` mapping is the innermost let layer of the document: the top-level
    expression when the let was lifted onto it (docs/api.md "Working with scopes"), else the target set."""
    top = src.expr
    if getattr(top, "scope", None):
        return top
    return src._resolve_target_set()


def as_tokens(val):
    """Render a looked-up value (expression or Python value) to the decoder's token form."""
    if hasattr(val, "rebuild"):
        text = val.rebuild()
    else:
        return vtokens(val)
    root = obs.cst(text)
    ch = [c for c in root.named_children if c.type != "comment"]
    if root.has_error or len(ch) != 1:
        return "<unrenderable " + text + ">"
    if ch[0].type in ("attrset_expression", "rec_attrset_expression"):
        try:
            return obs.plain(obs.decode_set(ch[0]))
        except obs.Dup:
            return "<dup>"
    return obs.node_tokens(ch[0])


def mapping_view(src):
    """What the mapping reports over the key alphabet."""
    body = {}
    for k in KEYS + ["b", "d", "e"]:
        try:
            body[k] = as_tokens(src[k])
        except KeyError:
            pass
        except Exception as e:
            body[k] = "<raises " + type(e).__name__ + ">"
    scope = {}
    try:
        target = _scope_owner(src)
        for k in SKEYS + ["w"]:
            try:
                scope[k] = as_tokens(target.scope[k])
            except KeyError:
                pass
            except Exception as e:
                scope[k] = "<raises " + type(e).__name__ + ">"
    except Exception as e:
        scope = {"<no target>": type(e).__name__}
    return {"body": body, "scope": scope}


def restrict(m):
    return {"body": {k: v for k, v in m["body"].items()}, "scope": dict(m["scope"])}


def same_view(a, b):
    return a == b


def judge(doc_text, hist):
    """Replay hist on a fresh document with the dict model in lock-step; judge the last step."""
    from nix_manipulator import parse

    src = parse(doc_text)
    m = model_of(doc_text)
    findings = []
    last_ok = None
    for i, op in enumerate(hist):
        last = i == len(hist) - 1
        before_snap = hashlib.blake2b(repr(obs.snapshot(src)).encode(), digest_size=8).hexdigest() if last else None
        exp = step_model(m, op)
        got = step_impl(src, op)
        last_ok = got[0] == "ok"
        if not last:
            if (exp[0] == "ok") != (got[0] == "ok"):
                return None, None, ["<prefix diverged>"]  # judged when that prefix was the last step
            continue
        if exp[0] == "raise":
            if got[0] == "ok":
                findings.append(("no-raise", f"{show_op(op)} must raise, returned"))
            else:
                if (op[0].endswith("get") or op[0].endswith("del")) and len(exp) == 1:
                    if got[1] != "KeyError":
                        findings.append(("wrong-exception", f"{show_op(op)} on a missing key raised {got[1]}"))
                after = hashlib.blake2b(repr(obs.snapshot(src)).encode(), digest_size=8).hexdigest()
                if after != before_snap:
                    findings.append(("raise-with-side-effect", f"{show_op(op)} raised {got[1]} but the tree changed"))
        else:
            if got[0] != "ok":
                findings.append(("unexpected-raise", f"{show_op(op)} raised {got[1]}: {got[2]}"))
            elif op[0].endswith("get"):
                if as_tokens(got[1]) != exp[1]:
                    findings.append(("wrong-lookup", f"{show_op(op)} returned {as_tokens(got[1])!r}, model {exp[1]!r}"))
    try:
        text = src.rebuild()
    except Exception as e:
        findings.append(("rebuild-raises", f"{type(e).__name__}: {e}"))
        return None, None, findings
    if m["body"] is _NOBODY:
        # the name the body refers to is no longer bound to a set: the document has left the
        # property's domain (no attribute set to map onto); not judged further, not expanded
        return None, last_ok, findings
    tv = model_of(text)
    mv = mapping_view(src)
    want = restrict(m)
    if tv is None:
        findings.append(("text-invalid", f"rebuilt text is not a valid/duplicate-free document: {text!r}"))
    else:
        if tv["body"] != want["body"] or tv["scope"] != want["scope"]:
            findings.append(("text-vs-model", f"text shows body={tv['body']} scope={tv['scope']}; dict model body={want['body']} scope={want['scope']}; text {text!r}"))
        elif list(tv["body"].keys()) != list(want["body"].keys()) and False:
            pass
    mb = {k: v for k, v in want["body"].items() if k in mv["body"] or k in KEYS + ["b", "d", "e"]}
    if mv["body"] != {k: v for k, v in want["body"].items() if k in KEYS + ["b", "d", "e"]} or mv["scope"] != {k: v for k, v in want["scope"].items() if k in SKEYS + ["w"]}:
        findings.append(("mapping-vs-model", f"mapping reports body={mv['body']} scope={mv['scope']}; dict model body={want['body']} scope={want['scope']}"))
    key = (text, hashlib.blake2b(repr(obs.snapshot(src)).encode(), digest_size=8).hexdigest())
    return key, last_ok, findings


_memo: dict = {}


def judge_memo(doc_name, hist):
    """hist in frozen (hashable) form"""
    k = (doc_name, hist)
    if k not in _memo:
        if len(_memo) > 200_000:
            _memo.clear()
        _memo[k] = judge(DOCS[doc_name], tuple(thaw_op(o) for o in hist))
    return _memo[k]


def minimal(doc_name, hist, cls):
    seen = {}

    def fails(d, h):
        return bool(h) and cls in {c for c, _ in (judge_memo(d, h)[2] or []) if isinstance(c, str) and not c.startswith("<")} if True else False

    def safe_fails(d, h):
        try:
            r = judge_memo(d, h)[2]
        except Exception:
            return False
        return any(isinstance(x, tuple) and x[0] == cls for x in r)

    def reds(d, h):
        for d2 in SIMPLER.get(d, ()):
            yield d2, h
        for i in range(len(h) - 1):
            yield d, h[:i] + h[i + 1 :]
        if len(h) > 1:
            yield d, h[:-1]
        for i, op in enumerate(h):
            if op[0] == "set" and op[2] != 5:
                yield d, h[:i] + (("set", op[1], 5),) + h[i + 1 :]

    def go(d, h):
        k = (d, h)
        if k in seen:
            return seen[k]
        seen[k] = frozenset()
        smaller = [x for x in reds(d, h) if safe_fails(*x)]
        res = frozenset([k]) if not smaller else frozenset().union(*[go(*x) for x in smaller])
        seen[k] = res
        return res

    return go(doc_name, hist)


def _hashable(op):
    return tuple(_freeze(x) for x in op)


def _freeze(x):
    if isinstance(x, dict):
        return ("dict", tuple(sorted((k, _freeze(v)) for k, v in x.items())))
    if isinstance(x, list):
        return ("list", tuple(_freeze(v) for v in x))
    return x


def _thaw(x):
    if isinstance(x, tuple) and x and x[0] == "dict":
        return {k: _thaw(v) for k, v in x[1]}
    if isinstance(x, tuple) and x and x[0] == "list":
        return [_thaw(v) for v in x[1]]
    return x


def thaw_op(op):
    return tuple(_thaw(x) for x in op)


def work(unit):
    doc_name, depth, values = unit
    alphabet = [_hashable(o) for o in ops(values)]
    counters = collections.Counter()
    states = {}
    failures = {}
    frontier = collections.deque([()])
    sample = None
    while frontier:
        hist = frontier.popleft()
        for op in alphabet:
            h2 = hist + (op,)
            key, ok, found = judge_memo(doc_name, h2)
            counters["transitions"] += 1
            real = [f for f in found if isinstance(f, tuple)]
            for cls, detail in real:
                counters["raw_failures"] += 1
                for d2, hm in minimal(doc_name, h2, cls):
                    hk = hm
                    if (d2, hk, cls) not in failures:
                        det = next((dd for c, dd in judge_memo(d2, hm)[2] if c == cls), detail)
                        failures[(d2, hk, cls)] = [0, det]
                    failures[(d2, hk, cls)][0] += 1
            if key is None or real:
                continue  # do not expand broken states
            if key in states:
                counters["merged"] += 1
                continue
            states[key] = h2
            if sample is None and len(h2) == depth:
                sample = {"doc": DOCS[doc_name], "history": [show_op(thaw_op(o)) for o in h2], "text": key[0]}
            if len(h2) < depth:
                frontier.append(h2)
    return {"counters": counters, "states": len(states) + 1, "failures": [(d2, [list(thaw_op(o)) for o in hk], cls, cnt, det) for (d2, hk, cls), (cnt, det) in failures.items()], "sample": sample}


# --------------------------------------------------------------------------- key spellings
# `a` and `"a"` spell the same Nix attribute.  Whether the mapping treats them as one key or as two is
# not settled by the property, so only what holds under BOTH readings is judged: a lookup with exactly
# the spelling of the last set/del on that spelling - with no operation on the other spelling in between -
# returns the stored value / raises KeyError.

SPELL_DOCS = ["plain", "nested", "scoped", "attrpath", "empty"]
SPELL_KEYS = ["a", '"a"', "z", '"z"']


def _alias(k):
    return k[1:-1] if k.startswith('"') else '"' + k + '"'


def spelling_work(unit):
    import itertools

    from nix_manipulator import parse

    doc_name, depth = unit
    alphabet = [("set", k, v) for k in SPELL_KEYS for v in (5, 6)] + [("del", k) for k in SPELL_KEYS] + [("get", k) for k in SPELL_KEYS]
    n = 0
    fails = {}
    for L in range(1, depth + 1):
        for hist in itertools.product(alphabet, repeat=L):
            if hist[-1][0] != "get":
                continue  # judged at lookups
            k = hist[-1][1]
            # last operation on spelling k, provided nothing touched the other spelling since
            expect = None
            for op in reversed(hist[:-1]):
                if op[1] == _alias(k) and op[0] != "get":
                    break
                if op[1] == k and op[0] in ("set", "del"):
                    expect = op
                    break
            if expect is None:
                continue
            src = parse(DOCS[doc_name])
            ok = True
            outcome = None
            for op in hist:
                r = step_impl(src, op)
                if op is expect or (op == expect and outcome is None):
                    pass
                outcome = r
                if op is not hist[-1] and op == expect and r[0] != "ok" and expect[0] == "del":
                    ok = False  # the del itself failed (missing key): nothing to judge
            if not ok:
                continue
            # was the expected op itself successful?  replay up to it
            src2 = parse(DOCS[doc_name])
            idx = max(i for i, op in enumerate(hist[:-1]) if op == expect)
            res = [step_impl(src2, op) for op in hist[: idx + 1]]
            if res[-1][0] != "ok":
                continue
            n += 1
            got = outcome
            hs = " ; ".join(show_op(o) for o in hist)
            if expect[0] == "set":
                want = vtokens(expect[2])
                if got[0] != "ok":
                    fails.setdefault(("set-then-lookup-raises", hs), f"doc {DOCS[doc_name]!r} [{hs}]: lookup of {k} raised {got[1]} although {show_op(expect)} succeeded and the other spelling was not touched since")
                elif as_tokens(got[1]) != want:
                    fails.setdefault(("set-then-lookup-wrong", hs), f"doc {DOCS[doc_name]!r} [{hs}]: lookup of {k} returned {as_tokens(got[1])!r}, stored {want!r}")
            else:
                if got[0] == "ok":
                    fails.setdefault(("del-then-lookup-returns", hs), f"doc {DOCS[doc_name]!r} [{hs}]: lookup of {k} returned {as_tokens(got[1])!r} after a successful del")
                elif got[1] != "KeyError":
                    fails.setdefault(("del-then-lookup-wrong-exception", hs), f"doc {DOCS[doc_name]!r} [{hs}]: lookup of {k} raised {got[1]} after a successful del")
    # keep minimal histories: drop a failing history if it still fails the same way with one operation removed
    keep = []
    for (cls, hs), det in fails.items():
        parts = hs.split(" ; ")
        if any((cls, " ; ".join(parts[:i] + parts[i + 1 :])) in fails for i in range(len(parts) - 1)):
            continue  # the same failure shows with one operation removed
        keep.append((cls, doc_name, hs, det))
    return n, keep


def run(prop: str, tier: str) -> core.Report:
    depth = 3 if tier == "quick" else 4
    values = VALUES if tier == "quick" else THOROUGH_VALUES
    units = [(d, depth, values) for d in DOCS]
    units = core.rotate(units, core.seed())
    results = core.pmap(work, units, chunksize=1)
    counters = collections.Counter()
    states = 0
    fl = {}
    samples = []
    for r in results:
        counters.update(r["counters"])
        states += r["states"]
        if r["sample"]:
            samples.append(r["sample"])
        for d2, hm, cls, cnt, det in r["failures"]:
            hs = " ; ".join(show_op(o) for o in hm)
            sig = f"{cls}|{d2}|{hs}"
            if sig not in fl:
                fl[sig] = core.Failure(prop="C14", sig=sig, cls=cls, case={"kind": "c14", "doc_name": d2, "doc": DOCS[d2], "history": hm}, detail=f"doc {DOCS[d2]!r} [{hs}] -> {det}", group=cls, raw_count=0)
            fl[sig].raw_count += cnt
    sres = core.pmap(spelling_work, [(d, 3 if tier == "quick" else 4) for d in SPELL_DOCS], chunksize=1)
    spell_n = sum(r[0] for r in sres)
    for _, keep in sres:
        for cls, dname, hs, det in keep:
            sig = f"spelling:{cls}|{dname}|{hs}"
            fl[sig] = core.Failure(prop="C14", sig=sig, cls="spelling:" + cls, case={"kind": "c14-spelling", "doc_name": dname, "history": hs}, detail=det, group="spelling")
    coverage = {
        "states": states,
        "transitions": counters["transitions"],
        "traces_validated_against_impl": counters["transitions"],
        "samples": samples[:4] or [{"note": "none"}],
        "evaluations": counters["transitions"] + spell_n,
        "distinct_nontrivial": states,
        "spelling_histories_judged": spell_n,
        "rule": "BFS over histories (length <= %d) of %d mapping operations (get/set/del on the document, on the nested set doc['a'], on a non-mapping value, on the scope mapping) from %d documents; state = (rebuilt text, structural snapshot); each transition is a real call judged against a plain dict run in lock-step and against the attribute tree decoded from the rebuilt text; plus every history (length <= %d) of set/del/get over the key spellings a, `a` in quotes, z, `z` in quotes on %d documents, judged at each lookup whose spelling was last set/deleted with no operation on the other spelling in between" % (depth, len(ops(values)), len(DOCS), depth, len(SPELL_DOCS)),
        "exhaustive": True,
        "states_merged": counters["merged"],
        "raw_failing_transitions": counters["raw_failures"],
    }
    return core.Report(prop="C14", level="model_checking", coverage=coverage, failures=sorted(fl.values(), key=lambda f: f.sig), assumptions=["reference model = nested Python dict (body) + dict (innermost let layer)", "states that already violate the law are reported and not expanded further", "history bound %d; value alphabet %r" % (depth, values)])


def replay(case: dict, prop: str):
    if case.get("kind") == "c14-spelling":
        n, keep = spelling_work((case["doc_name"], len(case["history"].split(" ; "))))
        hit = [k for k in keep if k[2] == case["history"]]
        return bool(hit), f"{hit[:1]}"
    hist = tuple(tuple(o) for o in case["history"])
    r1 = judge(case["doc"], hist)
    r2 = judge(case["doc"], hist)
    if r1 != r2:
        raise SystemExit("non-deterministic replay")
    real = [f for f in r1[2] if isinstance(f, tuple)]
    return bool(real), f"findings={real}"
