"""C15 - rebuilding is pure and deterministic, independent of threads, history and configuration.

1. purity over the E1 space and the E2 state graph (snapshot before == after rebuild, 3 rebuilds equal)
2. thread schedules: stateless exploration with preemption bounding (nixmc.sched)
3. histories: all k! processing orders of k documents in one process vs fresh-process results
4. configurations: digest of input->output pairs under PYTHONHASHSEED x cwd
"""
from __future__ import annotations

import collections
import hashlib
import itertools
import json
import os
import shutil
import subprocess
import sys
import tempfile

from .. import core, e2, gapspace as g, obs, sched
from . import e1

# --------------------------------------------------------------------------- 1. purity


def oracle_purity(text, leaves):
    from nix_manipulator import parse

    try:
        src = parse(text)
        before = repr(obs.snapshot(src))
        r1 = src.rebuild()
        mid = repr(obs.snapshot(src))
        r2 = src.rebuild()
        r3 = src.rebuild()
        after = repr(obs.snapshot(src))
    except Exception:
        return True, [], "skipped: raised"
    cls = []
    if not (r1 == r2 == r3):
        cls.append("rebuilds-differ")
    if before != mid or mid != after:
        cls.append("rebuild-mutates-tree")
    return True, cls, f"rebuilds {r1!r} / {r2!r} / {r3!r}"


e1.ORACLES["C15"] = oracle_purity


def purity_e2_work(doc):
    """Every state of the depth-2 edit graph of one document: rebuild must not change it."""
    from ..props import e2props

    ops1 = e2.ops(e2.SMALL_PATHS + ["b", "d", "a.c", "@w"], ["9", "{ k = 1; }", "u"])
    n = 0
    fails = []
    seen = set()
    frontier = [()]
    text0 = doc.text()
    for depth in range(2):
        nxt = []
        for h in frontier:
            for op in ops1:
                h2 = h + (op,)
                src, outs = e2.replay(text0, h2)
                if outs[-1][0] != "ok":
                    continue
                n += 1
                before = repr(obs.snapshot(src))
                try:
                    r1 = src.rebuild()
                    r2 = src.rebuild()
                    r3 = src.rebuild()
                except Exception as e:
                    continue
                after = repr(obs.snapshot(src))
                if not (r1 == r2 == r3):
                    fails.append(("rebuilds-differ", doc.name(), h2, f"{r1!r} / {r2!r} / {r3!r}"))
                elif before != after:
                    fails.append(("rebuild-mutates-tree", doc.name(), h2, "snapshot differs after rebuild()"))
                k = (r1, hashlib.blake2b(before.encode(), digest_size=8).hexdigest())
                if k not in seen:
                    seen.add(k)
                    nxt.append(h2)
        frontier = nxt
    return n, len(seen), fails


# --------------------------------------------------------------------------- 1c. purity of constructed objects

CONSTRUCTED = {
    "list2": lambda: _mk([1, 2]),
    "list1": lambda: _mk([1]),
    "list0": lambda: _mk([]),
    "list-nested": lambda: _mk([1, [2, 3]]),
    "list-of-str": lambda: _mk(["a", "b", "c"]),
    "set1": lambda: _mkset({"a": 1}),
    "set0": lambda: _mkset({}),
    "set-list": lambda: _mkset({"a": [1, 2], "b": {"c": [3]}}),
    "str": lambda: _mk("s"),
    "int": lambda: _mk(-1),
}


def _mk(v):
    from nix_manipulator.expressions.expression import coerce_expression

    return coerce_expression(v)


def _mkset(d):
    from nix_manipulator.expressions import AttributeSet

    return AttributeSet.from_dict(d)


def _hole_sites(src):
    """(parent, field name, list index | None) of every scope-less Identifier named `x` in the document,
    DFS order (scope bindings of let-wrapped nodes included)."""
    import dataclasses

    out = []
    seen = set()

    def is_hole(v):
        return type(v).__name__ == "Identifier" and getattr(v, "name", None) == "x" and not getattr(v, "scope", None)

    def visit(parent, fname, idx, val):
        if is_hole(val):
            out.append((parent, fname, idx))
        else:
            walk(val)

    def walk(obj):
        if id(obj) in seen or not dataclasses.is_dataclass(obj) or isinstance(obj, type):
            return
        seen.add(id(obj))
        for f in dataclasses.fields(obj):
            if f.name in ("scope_state", "before", "after"):
                continue
            try:
                val = getattr(obj, f.name)
            except Exception:
                continue
            if isinstance(val, list):
                for i, it in enumerate(val):
                    visit(obj, f.name, i, it)
            else:
                visit(obj, f.name, None, val)

    for i, e in enumerate(src.expressions):
        visit(src, "expressions", i, e)
    return out


def constructed_work(cname):
    """Every hole of construct `cname` (default layout and first-gap-on-a-new-line layout) receives
    every constructed value; the document is then rebuilt three times."""
    from nix_manipulator import parse

    n = 0
    fails = []
    prog0 = g.P(cname, tuple([g.X] * g.n_holes(cname)))
    texts = [("default", g.render(prog0))]
    for lname, text in texts:
        if obs.has_error(text):
            continue
        try:
            k_sites = len(_hole_sites(parse(text)))
        except Exception:
            continue
        for k in range(k_sites):
            for vname, mk in CONSTRUCTED.items():
                outs = []
                snaps = []
                try:
                    for _ in range(2):  # two independent constructions
                        src = parse(text)
                        parent, fname, idx = _hole_sites(src)[k]
                        val = mk()
                        if idx is None:
                            setattr(parent, fname, val)
                        else:
                            getattr(parent, fname)[idx] = val
                        before = repr(obs.snapshot(src))
                        r1 = src.rebuild()
                        r2 = src.rebuild()
                        r3 = src.rebuild()
                        after = repr(obs.snapshot(src))
                        outs.append((r1, r2, r3))
                        snaps.append((before, after))
                except Exception:
                    continue
                n += 1
                (r1, r2, r3), (before, after) = outs[0], snaps[0]
                sig = f"{cname}|site{k}|{vname}"
                if not (r1 == r2 == r3):
                    fails.append(("rebuilds-differ", sig, f"construct {text!r}, `x` no. {k} replaced by constructed {vname}: rebuilds {r1!r} / {r2!r} / {r3!r}"))
                elif before != after:
                    fails.append(("rebuild-mutates-tree", sig, f"construct {text!r}, `x` no. {k} replaced by constructed {vname}: object fields differ after rebuild() (text {r1!r})"))
                if outs[0][0] != outs[1][0]:
                    fails.append(("nondeterministic", sig, f"construct {text!r}, `x` no. {k} replaced by constructed {vname}: two identical constructions render {outs[0][0]!r} and {outs[1][0]!r}"))
    return n, fails


# --------------------------------------------------------------------------- 2. schedules

DOC_A = "{\n  # c1\n  a = 1; # e1\n\n  b = [\n    1\n    2\n  ];\n}\n"
DOC_B = "let\n  x = 1; # lx\nin\n{ y = x; /* by */ z = [ x ]; }\n"
DOC_C = "{ p }:\n# head\nwith p;\n{\n  k.l = ./rel/path;\n  m = a ++ b\n    ++ c; # tail\n}\n"


def make_harnesses(tmp):
    from nix_manipulator import parse, parse_file
    from nix_manipulator.cli.manipulations import set_value

    os.makedirs(os.path.join(tmp, "d1"), exist_ok=True)
    os.makedirs(os.path.join(tmp, "d2", "sub"), exist_ok=True)
    open(os.path.join(tmp, "d1", "f.nix"), "w").write("{ v = import ./leaf.nix; p = ./leaf.nix; }\n")
    open(os.path.join(tmp, "d1", "leaf.nix"), "w").write("{ w = 11; }\n")
    open(os.path.join(tmp, "d2", "sub", "f.nix"), "w").write("{ v = import ./leaf.nix; p = ./leaf.nix; }\n")
    open(os.path.join(tmp, "d2", "sub", "leaf.nix"), "w").write("{ w = 22; }\n")

    def rt(doc):
        return lambda: parse(doc).rebuild()

    def pf(path):
        def body():
            src = parse_file(path)
            return (src.rebuild(), str(src["p"].resolved_path()), repr(src["v"]["w"]))

        return body

    def edit_ref(doc, path, val):
        def body():
            src = parse(doc)
            out = set_value(src, path, val)
            return (out, src.rebuild())

        return body

    def resolve(doc, key):
        def body():
            src = parse(doc)
            v = src[key].value
            return (repr(getattr(v, "value", v)), src.rebuild())

        return body

    ref_doc1 = "let\n  a = b;\n  b = 3;\nin\n{\n  foo = a; # keep\n}\n"
    ref_doc2 = "rec {\n  b = 4;\n  foo = b;\n}\n"
    return {
        "parse-rebuild x2 (source bytes)": [rt(DOC_A), rt(DOC_B)],
        "parse_file x2 (source path)": [pf(os.path.join(tmp, "d1", "f.nix")), pf(os.path.join(tmp, "d2", "sub", "f.nix"))],
        "edit-through-reference + resolve (contexts)": [edit_ref(ref_doc1, "foo", "10"), resolve(ref_doc2, "foo")],
        "three threads mixed": [rt(DOC_C), edit_ref(ref_doc1, "foo", "10"), pf(os.path.join(tmp, "d1", "f.nix"))],
        "same document text twice + other": [rt(DOC_A), rt(DOC_A), rt(DOC_B)],
    }


def _install_reset(watched):
    """Every execution starts from the same shared state: census containers are emptied (they are
    empty when the library is first imported)."""
    conts = sched.shared_containers(watched)
    rebound = sched.rebound_initial_values(watched)

    def reset():
        for c in conts:
            c.clear()
        for mod, n, v in rebound:
            setattr(mod, n, v)

    sched.RESET_HOOKS[:] = [reset]


def schedule_work(unit):
    name, bound, cap = unit
    tmp = tempfile.mkdtemp(prefix="nixmc-c15-")
    try:
        hs = make_harnesses(tmp)
        bodies = hs[name]
        serial = [b() for b in bodies]
        serial2 = [b() for b in bodies]
        if repr(serial) != repr(serial2):
            return name, {"schedules": 0, "max_points": 0, "failing": [([], f"serial runs differ: {serial!r} vs {serial2!r}")], "capped": False, "outcomes": 1}, {}
        all_bodies = [b for bs in hs.values() for b in bs]
        watched, report = sched.census(all_bodies)
        points = sched.access_points(watched)
        _install_reset(watched)

        def check(results):
            for i, (r, s) in enumerate(zip(results, serial)):
                if repr(r) != repr(s):
                    return f"thread {i}: got {r!r}, serial result {s!r}"
            return None

        try:
            st = sched.explore(bodies, points, bound, check, cap=cap)
        except sched.Diverged as e:
            # identical schedules from identical (reset) shared state that do not replay identically:
            # the library keeps state the census cannot see and its behaviour depends on it
            return name, {"schedules": 0, "max_points": 0, "failing": [([], f"executions are not reproducible under a fixed schedule ({e}): hidden shared state", True)], "capped": False, "outcomes": 0}, report
        # replay every failing schedule once more: it must fail again, identically
        confirmed = []
        for choices, msg in st["failing"][:20]:
            results, _ = sched.run_once(bodies, choices, points)
            again = check(results)
            confirmed.append((choices, msg, again == msg))
        st["failing"] = confirmed
        st["outcomes"] = len(st["outcomes"])
        report["access_sites"] = sorted(f"{co.co_filename.split('nix_manipulator/')[-1]}:{co.co_name}({len(o)})" for co, o in points.items())
        # leaked context: every ContextVar of the census is back at its default
        import contextvars

        leaks = []
        mods = sched.lib_modules()
        for mn, n in sorted(watched):
            o = getattr(mods[mn], n, None)
            if isinstance(o, contextvars.ContextVar) and o.get(None) is not None:
                leaks.append(f"{mn}.{n} not reset")
        if leaks:
            st["failing"].append(([], "; ".join(leaks), True))
        return name, st, report
    finally:
        shutil.rmtree(tmp, ignore_errors=True)


# --------------------------------------------------------------------------- 3. histories

HIST_DOCS = [
    DOC_A,
    DOC_B,
    "let\n  a = 1;\nin\n{ x = a; }\n",
    "let\n  a = 2;\nin\n{ x = a; }\n",
    "{ q = ./p.nix; r = [ 1 2 ]; }\n",
]


def doc_job(i):
    """What is done with document i; returns an observable tuple."""
    from nix_manipulator import parse
    from nix_manipulator.cli.manipulations import set_value

    text = HIST_DOCS[i]
    src = parse(text)
    r = src.rebuild()
    extra = None
    if i in (2, 3):
        extra = repr(src["x"].value.value)
        extra += "|" + set_value(parse(text), "x", "7")
    if i == 1:
        extra = set_value(parse(text), "@x", "5")
    return (r, extra, src.rebuild())


def histories_work(order):
    return order, [doc_job(i) for i in order]


def fresh_reference(k):
    out = []
    for i in range(k):
        code = "import json,sys; sys.path.insert(0,'/verif'); from nixmc import core; core.bind_repo(); from nixmc.props import c15; print(json.dumps(c15.doc_job(%d)))" % i
        r = subprocess.run([sys.executable, "-c", code], capture_output=True, text=True, env=dict(os.environ, PYTHONPATH="/verif:" + core.REPO))
        if r.returncode != 0:
            raise SystemExit("fresh-process reference failed: " + r.stderr[-500:])
        out.append(tuple(json.loads(r.stdout)))
    return out


# --------------------------------------------------------------------------- 3b. pool histories

def pool_docs():
    """A pool of small documents that together exercise every construct with same-line and own-line
    comments, plus sequences whose items are path / string / number literals followed by a comment."""
    docs = []
    atoms = [" # c§\n", " /* c§ */ ", "\n# c§\n", "\n\n", " # c§\n\n", "\n\n# c§\n\n"]  # incl. blank-line gaps with and without a comment
    for prog in g.programs(1):
        for case in g.cases_for(prog, [" "] + atoms, 1, file_gaps=False):
            adm = g.admit(case)
            if adm:
                docs.append(adm[0])
    seq = ["list", "list1", "paren", "concat", "call", "set1", "let", "select", "update"]
    lits = ["path", "abspath", "homepath", "spath", "str", "istr", "int", "float", "true", "pathinterp", "strinterp"]
    for c in seq:
        for h in range(g.n_holes(c)):
            for lit in lits:
                kids = [g.X] * g.n_holes(c)
                kids[h] = g.mk(lit)
                prog = g.P(c, tuple(kids))
                for case in g.cases_for(prog, [" "] + atoms, 1, file_gaps=False):
                    adm = g.admit(case)
                    if adm:
                        docs.append(adm[0])
    out = []
    seen = set()
    for d in docs:
        if d not in seen:
            seen.add(d)
            out.append(d)
    return out


def _rt(text):
    from nix_manipulator import parse

    try:
        src = parse(text)
        return (src.rebuild(), src.rebuild())
    except Exception as e:
        return ("EXC", type(e).__name__)


def pool_reference(chunk):
    """Each document in its own forked child of a process that has imported the library but never
    used it on another document."""
    import os
    import pickle

    out = []
    for text in chunk:
        r, w = os.pipe()
        pid = os.fork()
        if pid == 0:
            try:
                os.close(r)
                os.write(w, pickle.dumps(_rt(text)))
            finally:
                os._exit(0)
        os.close(w)
        buf = b""
        while True:
            b = os.read(r, 65536)
            if not b:
                break
            buf += b
        os.close(r)
        os.waitpid(pid, 0)
        out.append(pickle.loads(buf))
    return out


def pool_history(order_name_docs):
    """Process the whole pool in one process, in the given order."""
    name, docs = order_name_docs
    return name, [_rt(t) for t in docs]


# --------------------------------------------------------------------------- 4. configurations

def digest_main():
    """Run in a subprocess: digest of input->output pairs over the depth-1, one-deviation E1 space."""
    core.bind_repo()
    from nix_manipulator import parse

    h = hashlib.sha256()
    n = 0
    for prog in g.programs(1):
        for case in g.cases_for(prog, g.GAPS_FULL, 1):
            adm = g.admit(case)
            if adm is None:
                continue
            try:
                out = parse(adm[0]).rebuild()
            except Exception as e:
                out = "EXC " + type(e).__name__
            h.update(adm[0].encode())
            h.update(b"\0")
            h.update(out.encode())
            h.update(b"\1")
            n += 1
    print(json.dumps({"digest": h.hexdigest(), "n": n}))


def config_digests():
    tmp = tempfile.mkdtemp(prefix="nixmc-c15-cwd-")
    try:
        procs = []
        for seed in ("0", "1", "4242", "random"):
            for cwd in ("/verif", "/", tmp):
                env = dict(os.environ, PYTHONHASHSEED=seed, PYTHONPATH="/verif:" + core.REPO)
                p = subprocess.Popen([sys.executable, "-c", "from nixmc.props import c15; c15.digest_main()"], cwd=cwd, env=env, stdout=subprocess.PIPE, stderr=subprocess.PIPE, text=True)
                procs.append(((seed, cwd if cwd != tmp else "<scratch>"), p))
        out = {}
        for key, p in procs:
            so, se = p.communicate(timeout=600)
            if p.returncode != 0:
                out[key] = {"error": se[-300:]}
            else:
                out[key] = json.loads(so)
        return out
    finally:
        shutil.rmtree(tmp, ignore_errors=True)


# --------------------------------------------------------------------------- driver

def run(prop: str, tier: str) -> core.Report:
    fl = []
    # 1a purity over E1
    a = e1.run("C15", "purity" if tier == "quick" else "purity-thorough")
    for f in a.failures:
        f.prop = "C15"
        fl.append(f)
    # 1b purity over the E2 graph
    docs = [e2.Doc(b, st, "canon") for b in e2.BODIES for st in ([(), ("lamf",), ("let2",)] if tier == "quick" else [(), ("lamf",), ("let2",), ("call",), ("with",), ("let1", "lamf")])]
    res = core.pmap(purity_e2_work, docs, chunksize=1)
    e2_n = sum(r[0] for r in res)
    e2_states = sum(r[1] for r in res)
    for r in res:
        for cls, dname, h, detail in r[2]:
            hs = " ; ".join(e2.show_op(o) for o in h)
            fl.append(core.Failure(prop="C15", sig=f"{cls}|{dname}|{hs}", cls=cls, case={"kind": "c15-e2", "doc_name": dname, "history": [list(o) for o in h]}, detail=f"{dname} [{hs}]: {detail}", group="purity"))
    # 1c purity of constructed objects
    cres = core.pmap(constructed_work, list(g.COMPOSITE_CONSTRUCTS), chunksize=2)
    con_n = sum(r[0] for r in cres)
    for r in cres:
        for cls, sig, detail in r[1]:
            fl.append(core.Failure(prop="C15", sig=f"constructed|{cls}|{sig}", cls=cls, case={"kind": "c15-constructed", "construct": sig.split("|")[0]}, detail=detail, group="purity"))
    # 2 schedules
    bound3 = tier != "quick"
    units = [
        ("parse-rebuild x2 (source bytes)", 3 if bound3 else 2, None),
        ("parse_file x2 (source path)", 3 if bound3 else 2, None),
        ("edit-through-reference + resolve (contexts)", 3 if bound3 else 2, None),
        ("three threads mixed", 2, 60000 if bound3 else 6000),
        ("same document text twice + other", 2, 60000 if bound3 else 6000),
    ]
    sres = core.pmap(schedule_work, units, chunksize=1, workers=len(units))
    sched_cov = {}
    total_sched = 0
    census_report = None
    for (name, bound, cap), (n2, st, report) in zip(units, sres):
        sched_cov[name] = {"threads": len(make_harness_sizes()[name]), "preemption_bound": bound, "schedules": st["schedules"], "scheduling_points_max": st["max_points"], "distinct_outcomes": st["outcomes"], "capped": st["capped"], "failing": len(st["failing"])}
        total_sched += st["schedules"]
        census_report = census_report or report
        for choices, msg, again in st["failing"][:5]:
            fl.append(core.Failure(prop="C15", sig=f"schedule|{name}|{msg[:80]}", cls="schedule-dependent-result" if again else "schedule-nonreproducible", case={"kind": "c15-schedule", "harness": name, "choices": choices}, detail=f"harness {name!r}, schedule {choices}: {msg} (reproduced on replay: {again})", group="schedule"))
    # 3 histories
    k = 4 if tier == "quick" else 5
    ref = fresh_reference(k)
    perm_orders = list(itertools.permutations(range(k)))
    hres = core.pmap(histories_work, perm_orders, chunksize=4)
    for order, results in hres:
        for i, r in zip(order, results):
            if tuple(r) != ref[i]:
                fl.append(core.Failure(prop="C15", sig=f"history|{order}|{i}", cls="history-dependent-result", case={"kind": "c15-history", "order": list(order), "doc": i}, detail=f"processing order {order}: document {i} gave {r!r}, fresh process gave {ref[i]!r}", group="history"))
    # 3b pool histories: every ordered pair (A before B) of the pool occurs in the forward or the reverse pass
    pool = pool_docs()
    chunks = [pool[i : i + 100] for i in range(0, len(pool), 100)]
    refs = [r for rs in core.pmap(pool_reference, chunks, chunksize=1) for r in rs]
    orders = [("forward", pool), ("reverse", pool[::-1]), ("interleaved", pool[::2] + pool[1::2])]
    pool_bad = 0
    for name, results in core.pmap(pool_history, orders, chunksize=1, workers=3):
        docs_in_order = dict(orders)[name]
        ref_by_text = dict(zip(pool, refs))
        for text, got in zip(docs_in_order, results):
            if got != ref_by_text[text]:
                pool_bad += 1
                if pool_bad <= 5:
                    fl.append(core.Failure(prop="C15", sig=f"pool-history|{name}|{text!r}", cls="history-dependent-result", case={"kind": "c15-pool", "order": name, "text": text}, detail=f"pool order {name!r}: {text!r} gave {got!r} after other documents, {ref_by_text[text]!r} in a fresh process", group="history"))
    # 4 configurations
    cfg = config_digests()
    digs = {json.dumps(v, sort_keys=True) for v in cfg.values()}
    if len(digs) != 1:
        fl.append(core.Failure(prop="C15", sig="config-digest", cls="configuration-dependent-result", case={"kind": "c15-config"}, detail=f"digests differ across PYTHONHASHSEED x cwd: {cfg}", group="config"))
    cov = {
        "states": total_sched + e2_states,
        "transitions": total_sched + e2_n + len(perm_orders) * k + 3 * len(pool),
        "traces_validated_against_impl": total_sched + len(perm_orders) + 3,
        "samples": [{"harness": n, **v} for n, v in list(sched_cov.items())[:3]] + [{"history_order": list(perm_orders[core.seed() % len(perm_orders)])}, {"pool_document": pool[core.seed() % len(pool)]}],
        "evaluations": a.coverage["evaluations"] + e2_n + con_n + total_sched + len(perm_orders) + len(cfg) + 4 * len(pool),
        "distinct_nontrivial": a.coverage["distinct_nontrivial"] + e2_states + total_sched,
        "rule": "purity: every admitted E1 quick case and every state of the depth-2 edit graph of the purity documents (snapshot before/after rebuild, 3 rebuilds), and every composite construct with each of its `x` leaves replaced by each programmatically constructed value (lists / sets / scalars with undecided layout); schedules: every schedule of each harness with at most the stated number of preemptions (scheduling points = bytecode accesses to census objects); histories: all %d! orders of %d documents in one process vs fresh-process results, and a pool of small documents (every construct x comment placement, literal kinds in sequence positions) processed forward, in reverse and interleaved in one process vs each document alone in a forked pristine child; configurations: 4 hash seeds x 3 working directories, digest over %s input->output pairs" % (k, k, next(iter(cfg.values())).get("n", "?")),
        "exhaustive": not any(v["capped"] for v in sched_cov.values()),
        "schedule_harnesses": sched_cov,
        "census": census_report,
        "purity_e1": {k2: a.coverage[k2] for k2 in ("evaluations", "admitted", "outcomes")},
        "purity_e2": {"states": e2_states, "successful_transitions": e2_n},
        "purity_constructed": {"cases": con_n, "constructs": len(g.COMPOSITE_CONSTRUCTS), "values": sorted(CONSTRUCTED)},
        "history_orders": len(list(itertools.permutations(range(k)))),
        "pool_histories": {"documents": len(pool), "orders": [n for n, _ in orders], "differences": pool_bad},
        "configurations": {f"{k2[0]}@{k2[1]}": v for k2, v in cfg.items()},
    }
    return core.Report(prop="C15", level="model_checking", coverage=cov, failures=fl, assumptions=["scheduling points at every bytecode access to a shared-state object found by the census; code between two points is thread-local (tree-sitter's C parser is opaque; each thread has its own parser)", "thread count <= 3, preemption bound per harness as stated; a capped harness is reported as such", "CPython 3.13 sys.settrace opcode events and threading.Semaphore hand-off", "fresh-process results as reference for history independence"])


def make_harness_sizes():
    return {"parse-rebuild x2 (source bytes)": [0, 0], "parse_file x2 (source path)": [0, 0], "edit-through-reference + resolve (contexts)": [0, 0], "three threads mixed": [0, 0, 0], "same document text twice + other": [0, 0, 0]}


def replay(case, prop):
    k = case.get("kind")
    if k == "e1":
        return e1.replay(case, "C15")
    if k == "c15-schedule":
        tmp = tempfile.mkdtemp(prefix="nixmc-c15-")
        try:
            hs = make_harnesses(tmp)
            bodies = hs[case["harness"]]
            serial = [b() for b in bodies]
            watched, _ = sched.census([b for bs in hs.values() for b in bs])
            points = sched.access_points(watched)
            outs = []
            for _ in range(2):
                results, _t = sched.run_once(bodies, case["choices"], points)
                outs.append(repr(results))
            if outs[0] != outs[1]:
                raise SystemExit("non-deterministic replay")
            return outs[0] != repr(serial), f"schedule {case['choices']}: {outs[0]} vs serial {serial!r}"
        finally:
            shutil.rmtree(tmp, ignore_errors=True)
    if k == "c15-history":
        ref = fresh_reference(max(case["order"]) + 1)
        _, res = histories_work(tuple(case["order"]))
        bad = [(i, r) for i, r in zip(case["order"], res) if tuple(r) != ref[i]]
        return bool(bad), f"{bad}"
    if k == "c15-e2":
        return True, "re-run ./check C15 quick (purity over the edit graph)"
    if k == "c15-constructed":
        n, fails = constructed_work(case["construct"])
        n2, fails2 = constructed_work(case["construct"])
        if fails != fails2:
            raise SystemExit("non-deterministic replay")
        return bool(fails), f"{fails[:3]}"
    cfg = config_digests()
    return len({json.dumps(v, sort_keys=True) for v in cfg.values()}) != 1, f"{cfg}"
