"""C16 - the command line reports and emits exactly what the library computes.

(a) real subprocesses `python -m nix_manipulator ...` over input class x command x channel;
(b) in-process main() over the E2 operation alphabet with stdin/stdout replaced (many calls in one
    process), compared with the library result for the same arguments.
"""
from __future__ import annotations

import contextlib
import io
import os
import shutil
import subprocess
import sys
import tempfile

from .. import core, e2

INPUTS = {
    "canon-1nl": "{ a = 1; }\n",
    "canon-0nl": "{ a = 1; }",
    "canon-2nl": "{ a = 1; }\n\n",
    "ml-canon": "let\n  u = 1;\nin\n{\n  a = 1; # c\n  b = {\n    c = 2;\n  };\n}\n",
    "noncanon": "{a=1;}\n",
    "noncanon-ml": "{ a = 1;\n b = 2; }\n",
    "error": "{ a = \n",
    "error-leading-blank": "\n{ a = \n",
    "empty": "",
    "ws-only": " \n",
    "comment-only": "# c\n",
    "utf8": '{ a = "é✓"; }\n',
    "bom": "﻿{ a = 1; }\n",
    "crlf": "{ a = 1; }\r\n",
    "list-top": "[ 1 2 ]\n",
    "lambda": "{ p }:\n{\n  a = 1;\n}\n",
    "unicode-linebreaks": '{ a = "x\u2028y\x0cz\x85w"; } # c\u2029d\n',  # characters str.splitlines() treats as line ends
    "ident-body": "{ pkgs }: pkgs\n",  # edits fail with ResolutionError
    "let-alias-body": "let\n  cfg = other;\nin\ncfg\n",
}
COMMANDS = [
    ("test",),
    ("set", "a", "2"),
    ("set", "z.y", "3"),
    ("set", "@u", "4"),
    ("set", "a", '"é"'),
    ("rm", "a"),
    ("rm", "missing"),
    ("set", "a..b", "1"),
    ("set", "a", "{"),
    ("set", "a", ""),
    ("rm", ""),
    ("set", "b.c", "9"),
]


def library(text: str, cmd):
    """What the library computes for this command. -> dict(stdout, ok)"""
    from nix_manipulator import parse
    from nix_manipulator.cli.manipulations import remove_value, set_value

    try:
        if cmd[0] == "test":
            src = parse(text)
            good = (not src.contains_error) and src.rebuild() == text
            return {"stdout": "OK\n" if good else "Fail\n", "exit": 0 if good else 1, "ok": True}
        src = parse(text)
        out = set_value(src, cmd[1], cmd[2]) if cmd[0] == "set" else remove_value(src, cmd[1])
        return {"stdout": out if out.endswith("\n") else out + "\n", "exit": 0, "ok": True}
    except Exception as e:
        return {"stdout": "", "exit": "nonzero", "ok": False, "exc": type(e).__name__}


def run_cli(text: str, cmd, channel: str, tmp: str):
    env = dict(os.environ, PYTHONPATH=core.REPO, PYTHONDONTWRITEBYTECODE="1", PYTHONIOENCODING="utf-8", PYTHONUTF8="1")
    args = [sys.executable, "-m", "nix_manipulator", *cmd]
    data = text.encode("utf-8")
    if channel == "file":
        fd, path = tempfile.mkstemp(suffix=".nix", dir=tmp)
        os.write(fd, data)
        os.close(fd)
        args += ["-f", path]
        p = subprocess.run(args, input=b"", capture_output=True, env=env, cwd=tmp)
        os.unlink(path)
    else:
        p = subprocess.run(args, input=data, capture_output=True, env=env, cwd=tmp)
    return {"stdout": p.stdout.decode("utf-8", "replace"), "exit": p.returncode, "stderr": p.stderr.decode("utf-8", "replace")[-200:]}


def judge(text, cmd, lib, got, channel):
    out = []
    if lib["ok"]:
        if got["exit"] != lib["exit"]:
            out.append(("wrong-exit-status", f"exit {got['exit']}, library says {lib['exit']}"))
        if got["stdout"] != lib["stdout"]:
            if got["stdout"] == lib["stdout"] + "\n":
                out.append(("extra-newline", f"stdout {got['stdout']!r}; library text + one terminator is {lib['stdout']!r}"))
            else:
                out.append(("wrong-stdout", f"stdout {got['stdout']!r}, expected {lib['stdout']!r}"))
    else:
        if got["exit"] == 0:
            out.append(("exit-0-on-error", f"library raised {lib.get('exc')} but exit status 0; stdout {got['stdout']!r}"))
        if got["stdout"] != "":
            out.append(("stdout-on-error", f"library raised {lib.get('exc')} but stdout is {got['stdout']!r}"))
    return [(c, f"[{channel}] nima {' '.join(map(repr, cmd))} on {text!r}: {d}") for c, d in out]


def sub_work(unit):
    name, text, cmd = unit
    tmp = tempfile.mkdtemp(prefix="nixmc-c16-")
    try:
        lib = library(text, cmd)
        fails = []
        res = {}
        for ch in ("stdin", "file"):
            got = run_cli(text, cmd, ch, tmp)
            res[ch] = got
            fails += judge(text, cmd, lib, got, ch)
        if (res["stdin"]["stdout"], res["stdin"]["exit"]) != (res["file"]["stdout"], res["file"]["exit"]):
            fails.append(("channels-disagree", f"nima {' '.join(map(repr, cmd))} on {text!r}: stdin gives {res['stdin']['stdout']!r}/{res['stdin']['exit']}, -f gives {res['file']['stdout']!r}/{res['file']['exit']}"))
        # the emitted text, redirected over the file, must be accepted by `nima test` when the library says it is stable
        extra = 0
        if cmd[0] != "test" and lib["ok"] and res["stdin"]["exit"] == 0:
            emitted = res["stdin"]["stdout"]
            lib2 = library(emitted, ("test",))
            got2 = run_cli(emitted, ("test",), "file", tmp)
            extra = 1
            fails += [(c, "(second round, on emitted text) " + d) for c, d in judge(emitted, ("test",), lib2, got2, "file")]
        return name, cmd, 2 + extra, fails
    finally:
        shutil.rmtree(tmp, ignore_errors=True)


def inproc_work(doc_text):
    """Many main() calls in one process, stdin and stdout replaced."""
    from nix_manipulator.cli.main import main

    n = 0
    fails = []
    cmds = [("test",)] + [("set", p, v) for p in e2.PATHS for v in ["9", "{ k = 1; }", "{", ""]] + [("rm", p) for p in e2.PATHS]
    for cmd in cmds:
        if any(a.startswith("-") or a == "" and False for a in cmd[1:]):
            continue
        lib = library(doc_text, cmd)
        old_in = sys.stdin
        sys.stdin = io.StringIO(doc_text)
        buf = io.StringIO()
        err = io.StringIO()
        try:
            with contextlib.redirect_stdout(buf), contextlib.redirect_stderr(err):
                try:
                    rc = main(list(cmd))
                except SystemExit as e:
                    rc = e.code if isinstance(e.code, int) else 2
                except Exception as e:
                    rc = "exception:" + type(e).__name__
        finally:
            sys.stdin = old_in
        n += 1
        got = {"stdout": buf.getvalue(), "exit": rc if not (isinstance(rc, str)) else 1}
        if isinstance(rc, str) and lib["ok"]:
            fails.append(("inproc-raises", f"main({list(cmd)!r}) raised {rc} on {doc_text!r}; library succeeds"))
            continue
        if isinstance(rc, str):
            # an uncaught exception is how the CLI reports failure (non-zero exit); stdout must be empty
            if got["stdout"]:
                fails.append(("stdout-on-error", f"main({list(cmd)!r}) on {doc_text!r}: printed {got['stdout']!r} before raising"))
            continue
        fails += judge(doc_text, cmd, lib, got, "in-process")
    return n, fails


def run(prop: str, tier: str) -> core.Report:
    units = [(name, text, cmd) for name, text in INPUTS.items() for cmd in COMMANDS]
    if tier != "quick":
        for d in e2.docs(1):
            for cmd in COMMANDS:
                units.append((d.name(), d.text(), cmd))
    units = core.rotate(units, core.seed())
    res = core.pmap(sub_work, units, chunksize=2)
    fl = {}
    nsub = 0
    for name, cmd, k, fails in res:
        nsub += k
        for cls, detail in fails:
            sig = f"{cls}|{name}|{' '.join(cmd)}"
            fl.setdefault(sig, core.Failure(prop="C16", sig=sig, cls=cls, case={"kind": "c16", "input": name, "text": dict(units_text(units)).get(name), "cmd": list(cmd)}, detail=detail, group=cls))
    docs = [d.text() for d in e2.docs(1 if tier == "quick" else 2, layouts=("canon",))] + list(INPUTS.values())
    ires = core.pmap(inproc_work, docs, chunksize=2)
    nin = sum(r[0] for r in ires)
    for (n, fails), text in zip(ires, docs):
        seen = set()
        for cls, detail in fails:
            # one representative per (class, document)
            if cls in seen:
                continue
            seen.add(cls)
            sig = f"inproc|{cls}|{text!r}"
            fl.setdefault(sig, core.Failure(prop="C16", sig=sig, cls=cls, case={"kind": "c16-inproc", "text": text}, detail=detail, group=cls))
    cov = {
        "evaluations": nsub + nin,
        "distinct_nontrivial": len(units) * 2 + nin,
        "rule": f"(a) {len(units)} (input class x command) pairs x 2 channels as real subprocesses `python -m nix_manipulator`, plus a second-round `test` on every emitted text; (b) {nin} in-process main() calls (stdin/stdout replaced) over {len(docs)} documents x the E2 operation alphabet; every run is compared with the library result computed in-process",
        "samples": [{"input": u[1], "cmd": list(u[2])} for u in core.pick_samples(units, 5)],
        "exhaustive": True,
        "subprocess_runs": nsub,
        "inprocess_calls": nin,
    }
    return core.Report(prop="C16", level="exploration", coverage=cov, failures=sorted(fl.values(), key=lambda f: f.sig), assumptions=["the library result (parse/rebuild, set_value, remove_value) computed in the harness process is the reference", "subprocess environment: PYTHONUTF8=1, cwd = scratch directory"])


def units_text(units):
    return [(n, t) for n, t, _ in units]


def replay(case, prop):
    if case["kind"] == "c16":
        a = sub_work((case["input"], case["text"], tuple(case["cmd"])))
        b = sub_work((case["input"], case["text"], tuple(case["cmd"])))
        if a[3] != b[3]:
            raise SystemExit("non-deterministic replay")
        return bool(a[3]), f"{a[3]}"
    a = inproc_work(case["text"])
    return bool(a[1]), f"{a[1][:3]}"
