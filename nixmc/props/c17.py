"""C17 - imports resolve relative to the importing file, whatever the working directory.

Exhaustive product: directory layout x import chains (1..3 hops, every hop spelling) x working
directory x entry-path spelling x (chdir between parse and lookup).  Every directory holds a
same-named decoy with a different value, and a mirror tree under the unrelated working directory
holds yet other values, so resolving against the wrong base yields a *wrong value*.
"""
from __future__ import annotations

import itertools
import os
import shutil
import tempfile

from .. import core

DIRS = ["", "a", "a/b", "c"]
VALUES = {"": 1, "a": 2, "a/b": 3, "c": 4}


def spellings(cur: str, target: str, fname: str, root: str):
    """Ways a path literal in a file of directory `cur` can name root/target/fname."""
    rel = os.path.relpath(os.path.join("/R", target, fname), os.path.join("/R", cur))
    out = []
    out.append(("dot", rel if rel.startswith("../") else "./" + rel))
    if "/" in rel and not rel.startswith("."):
        out.append(("bare", rel))
    # detour through a sibling directory
    det = os.path.relpath(os.path.join("/R", "c"), os.path.join("/R", cur))
    det = det if det.startswith(".") else "./" + det
    out.append(("detour", f"{det}/../" + os.path.relpath(os.path.join("/R", target, fname), "/R")))
    out.append(("abs", os.path.join(root, target, fname)))
    return out


def build_tree(root: str, offset: int):
    """Create the layout under root; returns {chain id: (entry dir, entry file, hops, expected value)}"""
    for d in DIRS:
        os.makedirs(os.path.join(root, d), exist_ok=True)
        with open(os.path.join(root, d, "leaf.nix"), "w") as f:
            f.write("{ v = %d; }\n" % (VALUES[d] + offset))
    chains = {}
    n = 0
    for length in (1, 2, 3):
        for dirs in itertools.product(DIRS, repeat=length + 1):
            # dirs[0] = directory of the entry file, dirs[-1] = directory of the leaf
            if length == 3 and not (dirs[0] != dirs[1] and dirs[1] != dirs[2]):
                continue
            kinds_per_hop = []
            for i in range(length):
                fname = "leaf.nix" if i == length - 1 else None
                kinds_per_hop.append([k for k, _ in spellings(dirs[i], dirs[i + 1], "x.nix", root)])
            for kinds in itertools.product(*kinds_per_hop):
                if length >= 2 and len(set(kinds)) > 2:
                    continue
                n += 1
                cid = f"c{n}"
                files = []
                for i in range(length):
                    cur = dirs[i]
                    nxt = dirs[i + 1]
                    target_name = "leaf.nix" if i == length - 1 else f"{cid}_{i + 1}.nix"
                    sp = dict(spellings(cur, nxt, target_name, root))[kinds[i]]
                    fn = os.path.join(root, cur, f"{cid}_{i}.nix")
                    with open(fn, "w") as f:
                        f.write("{ k = import %s; }\n" % sp)
                    files.append(fn)
                chains[cid] = (dirs[0], f"{cid}_0.nix", length, VALUES[dirs[-1]] + offset, kinds, dirs)
    # error shapes
    with open(os.path.join(root, "a", "err_string.nix"), "w") as f:
        f.write('{ k = import "leaf.nix"; }\n')
    with open(os.path.join(root, "a", "err_call.nix"), "w") as f:
        f.write("{ k = import (f ./leaf.nix); }\n")
    with open(os.path.join(root, "a", "err_angle.nix"), "w") as f:
        f.write("{ k = import <nixpkgs>; }\n")
    with open(os.path.join(root, "a", "err_missing.nix"), "w") as f:
        f.write("{ k = import ./nowhere.nix; }\n")
    with open(os.path.join(root, "a", "paren.nix"), "w") as f:
        f.write("{ k = import (./leaf.nix); }\n")
    return chains


def entry_spellings(root, d, fname, cwd):
    full = os.path.join(root, d, fname)
    rel = os.path.relpath(full, cwd)
    out = [("abs", full), ("rel", rel), ("dotrel", rel if rel.startswith(".") else "./" + rel)]
    out.append(("detour", os.path.join(os.path.dirname(full), "..", os.path.basename(os.path.dirname(full)), fname) if d else os.path.join(root, "a", "..", fname)))
    child = {"": "a", "a": "b"}.get(d)
    if child:
        # the directory part of the spelling ends in `..`
        out.append(("updown", os.path.join(root, d, child, "..", fname)))
        rel_ud = os.path.join(os.path.relpath(os.path.join(root, d, child), cwd), "..", fname)
        out.append(("updown-rel", rel_ud))
    return out


def work(unit):
    root, mirror, cwds, chain_items, chdir_modes = unit
    from nix_manipulator import parse_file

    n = 0
    fails = []
    home = os.getcwd()
    try:
        for cid, (d, fname, length, want, kinds, dirs) in chain_items:
            for cwd in cwds:
                for ekind, entry in entry_spellings(root, d, fname, cwd):
                    for chdir_after in chdir_modes:
                        os.chdir(cwd)
                        n += 1
                        try:
                            src = parse_file(entry)
                            if chdir_after:
                                os.chdir(mirror)
                            cur = src
                            for _ in range(length):
                                cur = cur["k"]
                            got = cur["v"]
                            val = getattr(got, "value", got)
                        except Exception as e:
                            val = f"{type(e).__name__}: {str(e)[:80]}"
                        if val != want:
                            cls = "wrong-file" if isinstance(val, int) else "lookup-raises"
                            fails.append((cls, cid, f"chain dirs={dirs} hop spellings={kinds} entry={ekind} cwd={'<R>/' + os.path.relpath(cwd, root) if cwd.startswith(root) else ('<mirror>' + cwd[len(mirror):] if cwd.startswith(mirror) else cwd)} chdir_after_parse={chdir_after}: got {val!r}, planted {want}", (kinds, ekind, chdir_after, length)))
        # the same relative spelling parsed from two working directories in one process: the mirror tree
        # holds the same relative layout with other planted values (state left by an earlier parse_file
        # call must not anchor a later one)
        for cid, (d, fname, length, want, kinds, dirs) in chain_items:
            if "abs" in kinds:
                continue  # absolute hop spellings of the mirror tree point into the mirror anyway; keep the relative chains
            rel = os.path.join(d, fname) if d else fname
            for base, expect in ((root, want), (mirror, want + 900), (root, want)):
                os.chdir(base)
                n += 1
                try:
                    cur = parse_file(rel)
                    for _ in range(length):
                        cur = cur["k"]
                    got = cur["v"]
                    val = getattr(got, "value", got)
                except Exception as e:
                    val = f"{type(e).__name__}: {str(e)[:80]}"
                if val != expect:
                    cls = "wrong-file" if isinstance(val, int) else "lookup-raises"
                    fails.append((cls, cid, f"chain dirs={dirs} hop spellings={kinds}: relative entry {rel!r} parsed from {'<R>' if base == root else '<mirror>'} after the same spelling was parsed from the other tree: got {val!r}, planted {expect}", (kinds, "same-rel-two-cwds", False, length)))
    finally:
        os.chdir(home)
    return n, fails


def error_shapes(root):
    from nix_manipulator import parse_file

    out = []
    n = 0
    for fname, exc in (("err_string.nix", TypeError), ("err_call.nix", TypeError), ("err_angle.nix", ValueError), ("err_missing.nix", OSError)):
        for cwd in (root, os.path.join(root, "c"), "/"):
            os.chdir(cwd)
            n += 1
            try:
                v = parse_file(os.path.join(root, "a", fname))["k"]["v"]
                out.append(("no-error", fname, f"{fname} from cwd {cwd}: returned {getattr(v, 'value', v)!r}, expected {exc.__name__}"))
            except exc:
                pass
            except Exception as e:
                out.append(("wrong-error", fname, f"{fname}: raised {type(e).__name__}, expected {exc.__name__}"))
    os.chdir(root)
    n += 1
    v = parse_file(os.path.join(root, "a", "paren.nix"))["k"]["v"]
    if getattr(v, "value", v) != VALUES["a"]:
        out.append(("wrong-file", "paren.nix", f"parenthesised path: got {v!r}"))
    return n, out


# directory symlinks: (directory holding the link, link name, physical target directory); chains leave the linked directory with `../`
LINKS = [("c", "ln_ab", "a/b"), ("", "ln_ab", "a/b"), ("c", "ln_a", "a"), ("a", "ln_c", "c")]


def build_links(root: str):
    """Chains that start in a directory reached through a symlink and step out of it with `../`.  The operating system
    resolves `link/..` physically (the parent of the link's target), so the planted value is the physical one; a decoy
    with the same file name sits where a textual collapse of `link/..` would look."""
    for tgt in sorted({t for _, _, t in LINKS}):
        tag = tgt.replace("/", "")
        parent = os.path.dirname(tgt)
        with open(os.path.join(root, tgt, f"s0_{tag}.nix"), "w") as f:
            f.write("{ k = import ../s1_%s.nix; }\n" % tag)
        with open(os.path.join(root, tgt, f"t0_{tag}.nix"), "w") as f:
            f.write("{ k = import ../leaf.nix; }\n")
        with open(os.path.join(root, parent, f"s1_{tag}.nix"), "w") as f:
            f.write("{ k = import ./leaf.nix; }\n")
    for holder, name, tgt in LINKS:
        tag = tgt.replace("/", "")
        link = os.path.join(root, holder, name)
        if not os.path.islink(link):
            os.symlink(os.path.relpath(os.path.join(root, tgt), os.path.join(root, holder)), link)
        decoy = os.path.join(root, holder, f"s1_{tag}.nix")
        if not os.path.exists(decoy):
            with open(decoy, "w") as f:
                f.write("{ k = import ./leaf.nix; }\n")


def link_chains(root, mirror, cwds, offset=0):
    from nix_manipulator import parse_file

    n = 0
    out = []
    for holder, name, tgt in LINKS:
        tag = tgt.replace("/", "")
        want = VALUES[os.path.dirname(tgt)] + offset
        for fname, length in ((f"s0_{tag}.nix", 2), (f"t0_{tag}.nix", 1)):
            full = os.path.join(root, holder, name, fname)
            for cwd in cwds:
                for ekind, entry in (("abs", full), ("rel", os.path.relpath(full, cwd))):
                    for chdir_after in (False, True):
                        os.chdir(cwd)
                        n += 1
                        try:
                            cur = parse_file(entry)
                            if chdir_after:
                                os.chdir(mirror)
                            for _ in range(length):
                                cur = cur["k"]
                            got = cur["v"]
                            val = getattr(got, "value", got)
                        except Exception as e:
                            val = f"{type(e).__name__}: {str(e)[:80]}"
                        if val != want:
                            cls = "wrong-file" if isinstance(val, int) else "lookup-raises"
                            out.append((cls, f"symlink|{'two-hop' if length == 2 else 'one-hop'}|entry={ekind}|chdir_after_parse={chdir_after}", f"entry <R>/{os.path.join(holder, name, fname)} ({name} -> {tgt}) whose import leaves the linked directory with ../ ({length} hop(s)), entry={ekind} cwd={cwd} chdir_after_parse={chdir_after}: got {val!r}, planted {want} (the file physically next to the one that was read)"))
    return n, out


def run(prop: str, tier: str) -> core.Report:
    base = tempfile.mkdtemp(prefix="nixmc-c17-")
    home = os.getcwd()
    try:
        root = os.path.join(base, "R")
        mirror = os.path.join(base, "U")
        chains = build_tree(root, 0)
        build_tree(mirror, 900)  # decoys: same relative structure, other values
        build_links(root)
        build_links(mirror)
        cwds = [root, os.path.join(root, "a"), os.path.join(root, "c"), mirror, os.path.join(mirror, "a"), "/"]
        items = sorted(chains.items())
        if tier == "quick":
            items = [it for it in items if it[1][2] <= 2] + [it for it in items if it[1][2] == 3][::7]
        chunks = [items[i : i + 12] for i in range(0, len(items), 12)]
        units = [(root, mirror, cwds, ch, (False, True)) for ch in chunks]
        units = core.rotate(units, core.seed())
        res = core.pmap(work, units, chunksize=1)
        n = sum(r[0] for r in res)
        fl = {}
        for r in res:
            for cls, cid, detail, key in r[1]:
                kinds, ekind, chdir_after, length = key
                # minimal form: class + hop spellings + entry spelling + chdir flag (directories abstracted)
                sig = f"{cls}|hops={'/'.join(kinds)}|entry={ekind}|chdir_after_parse={chdir_after}"
                if sig not in fl:
                    fl[sig] = core.Failure(prop="C17", sig=sig, cls=cls, case={"kind": "c17", "sig": sig}, detail=detail, group=cls, raw_count=0)
                fl[sig].raw_count += 1
        en, efails = error_shapes(root)
        ln, lfails = link_chains(root, mirror, cwds)
        en += ln
        os.chdir(home)
        for cls, sig0, detail in lfails:
            sig = f"{cls}|{sig0}"
            if sig not in fl:
                fl[sig] = core.Failure(prop="C17", sig=sig, cls=cls, case={"kind": "c17", "sig": sig}, detail=detail, group=cls, raw_count=0)
            fl[sig].raw_count += 1
        for cls, fname, detail in efails:
            fl[f"{cls}|{fname}"] = core.Failure(prop="C17", sig=f"{cls}|{fname}", cls=cls, case={"kind": "c17", "sig": fname}, detail=detail, group=cls)
        # keep only minimal signatures: drop a failing multi-hop signature if every hop spelling already fails alone
        single = {s for s in fl if s.count("/") == 0 and "hops=" in s}
        keep = {}
        for sig, f in fl.items():
            if "hops=" in sig:
                hops = sig.split("|")[1][5:].split("/")
                rest = sig.split("|", 2)[2]
                if len(hops) > 1 and any(f"{f.cls}|hops={h}|{rest}" in fl for h in hops):
                    continue
            keep[sig] = f
        cov = {
            "evaluations": n + en,
            "distinct_nontrivial": n,
            "rule": f"{len(items)} import chains (1-3 hops over directories {DIRS}, hop spellings ./ ../ bare a/b detour absolute) x {len(cwds)} working directories x 4-6 entry-path spellings (absolute, relative, ./relative, detour, directory part ending in `..`) x chdir-between-parse-and-lookup, plus every relative chain entered through the same relative spelling from the tree and from its mirror in one process, plus {len(LINKS)} directory symlinks x chains that leave the linked directory with ../ (1 and 2 hops, decoy where a textual collapse of link/.. would look) x working directories x absolute/relative entry x chdir flag; decoy leaf.nix in every directory and a mirror tree with other values under the unrelated working directory; + error shapes",
            "samples": [{"chain": c, "dirs": v[5], "hop_spellings": v[4], "planted": v[3]} for c, v in core.pick_samples(items, 4)],
            "exhaustive": True,
            "chains": len(items),
            "lookups": n,
        }
        return core.Report(prop="C17", level="exploration", coverage=cov, failures=sorted(keep.values(), key=lambda f: f.sig), assumptions=["scratch directory tree created and removed by the check", "failures are grouped by (hop spellings, entry spelling, chdir flag); directories are varied exhaustively underneath"])
    finally:
        os.chdir(home)
        shutil.rmtree(base, ignore_errors=True)


def replay(case, prop):
    r = run("C17", "quick")
    hit = [f for f in r.failures if f.sig == case.get("sig") or case.get("sig") in f.sig]
    return bool(hit), f"{[f.detail for f in hit][:2]}"
