"""C20 - parse and rebuild terminate quickly and fail only in documented ways.

(a) failure modes: the C07 text spaces (all short token strings, all single-point damages) with the
    oracle "returns or raises ValueError";
(b) growth: every nesting family (construct C nested in its own hole, and C-in-D-in-C) up to a depth
    bound, measured by a deterministic count of rebuild() invocations, must grow polynomially.
"""
from __future__ import annotations

import collections
import re
import time

from .. import core, gapspace as g, obs
from . import textspace

CAP = 2_000_000
_count = [0]


class Cap(Exception):
    pass


def install_counter():
    from nix_manipulator.expressions.expression import NixExpression
    import nix_manipulator.mapping  # noqa: all expression classes loaded

    def allsub(c):
        for s in c.__subclasses__():
            yield s
            yield from allsub(s)

    for cls in set(allsub(NixExpression)) | {NixExpression}:
        f = cls.__dict__.get("rebuild")
        if f is None or getattr(f, "_nixmc_counted", False):
            continue

        def make(f):
            def w(self, *a, **k):
                _count[0] += 1
                if _count[0] > CAP:
                    raise Cap()
                return f(self, *a, **k)

            w._nixmc_counted = True
            return w

        setattr(cls, "rebuild", make(f))


INNERMOST = {"x": g.X, "mlset": g.P("set1", (g.X,), ((0, "\n"),)), "x-nl": g.X, "x-wide": g.X}
# "x-nl": nested program on the next line at every level
# "x-wide": every `x` is a 120-character identifier, so each level is wider than the renderer's only
#           width threshold (list.py MAX_INLINE_LIST_WIDTH = 100) from the first level on
WIDE = "w" * 120
_X_RE = re.compile(r"(?<![\w./\"'-])x(?![\w./\"'-])")
PERIOD2 = ["set1", "list1", "let", "lam", "lamf1", "call", "with", "assert", "if", "paren", "inheritfrom", "concat", "select"]


def _gap_before_hole(c, h):
    """Index of the (variable) gap in front of hole h of construct c, or None."""
    elems, glued = g._elements(c)
    for j, e in enumerate(elems):
        if isinstance(e, tuple) and e[1] == h:
            if j > 0 and (j - 1) not in glued:
                return j - 1
    return None


def nest(chain, depth, inner, newline=False):
    """chain = [(construct, hole), ...] repeated cyclically to `depth` levels around `inner`.
    newline=True puts the nested program on the next line at every level."""
    p = inner
    for i in range(depth):
        c, h = chain[(depth - 1 - i) % len(chain)]
        n = g.n_holes(c)
        kids = [g.X] * n
        kids[h] = p
        gaps = ()
        if newline:
            j = _gap_before_hole(c, h)
            if j is not None:
                gaps = ((j, "\n"),)
        p = g.P(c, tuple(kids), gaps)
    return p


def family_text(chain, iname, depth):
    text = g.render(nest(chain, depth, INNERMOST[iname], newline=iname.endswith("-nl")))
    if iname.endswith("-wide"):
        text = _X_RE.sub(WIDE, text)
    return text


def families():
    out = []
    for c in g.COMPOSITE_CONSTRUCTS:
        for h in range(g.n_holes(c)):
            for iname in INNERMOST:
                out.append((f"{c}[{h}]<{iname}>", [(c, h)], iname))
    for c in PERIOD2:
        for d in PERIOD2:
            if c == d:
                continue
            for hc in range(g.n_holes(c)):
                hd = g.n_holes(d) - 1
                out.append((f"{c}[{hc}]/{d}[{hd}]<x>", [(c, hc), (d, hd)], "x"))
                out.append((f"{c}[{hc}]/{d}[{hd}]<x-nl>", [(c, hc), (d, hd)], "x-nl"))
                out.append((f"{c}[{hc}]/{d}[{hd}]<x-wide>", [(c, hc), (d, hd)], "x-wide"))
    return out


def measure(chain, iname, depth):
    """-> (calls | 'CAP' | 'INVALID' | exception name, seconds)"""
    from nix_manipulator import parse

    text = family_text(chain, iname, depth)
    if obs.has_error(text):
        return "INVALID", 0.0, len(text)
    _count[0] = 0
    t = time.time()
    try:
        src = parse(text)
        if src.contains_error:
            return "INVALID", 0.0, len(text)
        _count[0] = 0
        src.rebuild()
        return _count[0], time.time() - t, len(text)
    except Cap:
        return "CAP", time.time() - t, len(text)
    except RecursionError:
        return "RecursionError", time.time() - t, len(text)
    except ValueError:
        return "ValueError", time.time() - t, len(text)
    except Exception as e:
        return type(e).__name__, time.time() - t, len(text)


def growth_work(unit):
    name, chain, iname, depths = unit
    install_counter()
    row = {}
    for d in depths:
        r = measure(chain, iname, d)
        row[d] = r
        if r[0] in ("CAP",):
            break
    return name, chain, iname, row


def judge_row(row, depths):
    """Polynomial growth: calls(2d) <= 16 * calls(d) for the largest measured d, 2d pair; no CAP."""
    vals = {d: r[0] for d, r in row.items()}
    if any(v == "CAP" for v in vals.values()):
        d = next(d for d, v in vals.items() if v == "CAP")
        return "exponential", f"more than {CAP} rebuild calls at nesting depth {d} (calls per depth: {vals})"
    nums = {d: v for d, v in vals.items() if isinstance(v, int)}
    bad_exc = {d: v for d, v in vals.items() if isinstance(v, str) and v not in ("INVALID", "ValueError")}
    if bad_exc:
        return "internal-error", f"{bad_exc}"
    # growth by a constant factor per two levels (period-2 families double every second level):
    # a polynomial of degree <= 3 has (d+2)/d ratios below 1.9 at the last step
    ds = sorted(nums)
    if len(ds) >= 3 and ds[-1] - ds[-2] == 2 and ds[-2] - ds[-3] == 2 and nums[ds[-3]] >= 20:
        r1 = nums[ds[-2]] / nums[ds[-3]]
        r2 = nums[ds[-1]] / nums[ds[-2]]
        if r1 >= 1.9 and r2 >= 1.9:
            return "exponential", f"rebuild calls keep growing by a constant factor: depth {ds[-3]} -> {nums[ds[-3]]}, {ds[-2]} -> {nums[ds[-2]]}, {ds[-1]} -> {nums[ds[-1]]} (calls per depth: {nums})"
    pairs = [(d, 2 * d) for d in nums if 2 * d in nums and d >= 4]
    for d, d2 in sorted(pairs, reverse=True)[:2]:
        if nums[d] > 0 and nums[d2] > 16 * nums[d]:
            return "exponential", f"rebuild calls grow super-polynomially: depth {d} -> {nums[d]}, depth {d2} -> {nums[d2]} (calls per depth: {nums})"
    return None, ""


def run(prop: str, tier: str) -> core.Report:
    a = textspace.run("C20", tier)
    depths = [1, 2, 3, 4, 5, 6, 8, 10, 12] if tier == "quick" else [1, 2, 3, 4, 5, 6, 7, 8, 9, 10, 12, 14, 16, 18]
    fams = families()
    units = [(n, c, i, depths) for n, c, i in fams]
    units = core.rotate(units, core.seed())
    res = core.pmap(growth_work, units, chunksize=2)
    fl = list(a.failures)
    table = {}
    classes = collections.Counter()
    for name, chain, iname, row in res:
        cls, detail = judge_row(row, depths)
        vals = {d: r[0] for d, r in row.items()}
        table[name] = vals
        shape = "invalid" if all(v == "INVALID" for v in vals.values()) else ("exponential" if cls == "exponential" else "polynomial")
        classes[shape] += 1
        if cls:
            fl.append(core.Failure(prop="C20", sig=f"{cls}|{name}", cls=cls, case={"kind": "c20-growth", "chain": [list(x) for x in chain], "inner": iname, "depths": depths}, detail=f"family {name} ({family_text(chain, iname, 3).replace(WIDE, 'w' * 6 + '...(120)')!r} ...): {detail}", group=cls))
    n_meas = sum(len(v) for v in table.values())
    cov = dict(a.coverage)
    cov["evaluations"] = a.coverage["evaluations"] + n_meas
    cov["distinct_nontrivial"] = a.coverage["distinct_nontrivial"] + n_meas
    cov["rule"] = a.coverage["rule"] + f" || growth: {len(fams)} nesting families (every composite construct nested in each of its own holes around 2 innermost programs, plus the same with the nested program on the next line at every level and with every leaf a 120-character identifier (past the renderer's width threshold); period-2 families over {len(PERIOD2)} constructs) x depths {depths}; measure = number of rebuild() invocations (deterministic), cap {CAP}"
    cov["growth_families"] = len(fams)
    cov["growth_shapes"] = dict(classes)
    cov["growth_samples"] = {k: table[k] for k in list(sorted(table))[:: max(1, len(table) // 8)]}
    cov["samples"] = list(a.coverage["samples"])[:4] + [family_text(c, i, 4).replace(WIDE, "w" * 6 + "...(120)") for n, c, i in core.pick_samples(fams, 3)]
    return core.Report(prop="C20", level="exploration", coverage=cov, failures=fl, assumptions=a.assumptions + ["growth is judged on the count of rebuild() invocations obtained by wrapping every rebuild method from the harness (wall time is reported, not judged)", "polynomial = calls(2d) <= 16 * calls(d) for the two largest measured pairs, the last two step-2 ratios not both >= 1.9, and no case above the cap"])


def replay(case, prop):
    if case.get("kind") == "text":
        return textspace.replay(case, "C20")
    install_counter()
    chain = [tuple(x) for x in case["chain"]]
    row = {}
    for d in case["depths"]:
        row[d] = measure(chain, case["inner"], d)
        if row[d][0] == "CAP":
            break
    cls, detail = judge_row(row, case["depths"])
    return bool(cls), detail
