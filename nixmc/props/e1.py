"""E1-based checks: C01 (tokens), C03 (comments), C06a (fixed point), C18 (spacing).

One driver, four oracles.  Each work unit is one program; the worker enumerates all of its
cases within the bound, evaluates the oracle on the *real* library, and minimises every
failing case inside the same bounded space (DESIGN 1.4).
"""
from __future__ import annotations

import collections
import hashlib
import time

from .. import core, gapspace as g, obs

PLANS = {
    # (depth, constructs-at-top, gap alphabet, max deviations, pair distance)
    "quick": [
        ("d1-full-2dev", 1, "FULL", 2, 2),
        ("d2-rep-1dev", 2, "REP", 1, None),
        ("selfnest-3-4-rep-1dev", "selfnest", "REP", 1, None),
    ],
    "thorough": [
        ("d1-full-2dev", 1, "FULL", 2, None),
        ("d2-full-1dev", 2, "FULL", 1, None),
        ("d2-rep-2dev", 2, "REP", 2, 2),
        ("d3ctx-rep-1dev", 3, "REP", 1, None),
        ("selfnest-3-5-rep-1dev", "selfnest5", "REP", 1, None),
    ],
}
PLANS["purity"] = [("d1-full-1dev", 1, "FULL", 1, None), ("d1-rep-2dev", 1, "REP", 2, 2), ("d2-mini-1dev", 2, "MINI", 1, None)]
PLANS["purity-thorough"] = [("d1-full-2dev", 1, "FULL", 2, 2), ("d2-rep-1dev", 2, "REP", 1, None)]
ALPHABETS = {"FULL": g.GAPS_FULL, "REP": g.GAPS_REP, "MINI": [" ", "\n", " # c§\n", "\n# c§\n", " /* c§ */ ", "\n\n"]}
# depth-3: outer contexts (one construct per context kind named in DESIGN 1.3)
D3_CONTEXTS = ["set1", "list", "let", "lam", "call", "paren", "with", "if", "assert", "concat", "select", "inheritfrom"]


def _h(text: str) -> int:
    return int.from_bytes(hashlib.blake2b(text.encode("utf-8", "replace"), digest_size=8).digest(), "big")


# --------------------------------------------------------------------------- oracles
# each oracle: (text, leaves) -> (nontrivial: bool, classes: list[str], detail: str)

def _roundtrip(text):
    from nix_manipulator import parse

    return parse(text).rebuild()


def _subseq(a, b):
    it = iter(b)
    return all(x in it for x in a)


def oracle_c01(text, leaves):
    try:
        r = _roundtrip(text)
    except Exception as e:  # the universe is "every source that parses": any raise is a C01 failure
        return True, ["raises:" + type(e).__name__], f"{type(e).__name__}: {str(e)[:120]}"
    if not obs.valid_modulo_formals_comma(r):
        return True, ["output-invalid"], f"output {r!r}"
    err, oleaves = obs.lex(r)
    tin = obs.normalise_tokens(obs.code_tokens(leaves))
    tout_raw = obs.code_tokens(oleaves)
    tout = obs.normalise_tokens(tout_raw)
    classes = []
    if tin != tout:
        if len(tout) < len(tin) and _subseq(tout, tin):
            classes.append("token-lost")
        elif len(tout) > len(tin) and _subseq(tin, tout):
            classes.append("token-added")
        else:
            classes.append("token-changed")
    elif obs.trailing_formals_commas_single_line(r, oleaves) and not obs.trailing_formals_commas_single_line(text, leaves):
        classes.append("comma-single-line")
    return True, classes, f"output {r!r}"


def _ckey(w):
    kind, lines = w
    return ("doc" if kind == "doc" else "c", lines)


def oracle_c03(text, leaves):
    ain = obs.anchor_sequence(leaves)
    cin = [_ckey(v) for k, v in ain if k == "C"]
    if not cin:
        return False, [], ""
    try:
        r = _roundtrip(text)
    except Exception as e:
        return True, [], "skipped: rebuild raised (C01/C20 territory)"
    err, oleaves = obs.lex(r)
    aout = obs.anchor_sequence(oleaves)
    cout = [_ckey(v) for k, v in aout if k == "C"]
    classes = []
    ci, co = collections.Counter(cin), collections.Counter(cout)
    if ci != co:
        lost = ci - co
        extra = co - ci
        if lost and extra:
            classes.append("reworded")
        elif lost:
            classes.append("lost")
        else:
            classes.append("duplicated")
    elif cin != cout:
        classes.append("reordered")
    else:
        nin = [(k, _ckey(v) if k == "C" else v) for k, v in ain]
        nout = [(k, _ckey(v) if k == "C" else v) for k, v in aout]
        if nin != nout:
            # only meaningful if the anchors themselves are intact
            if [x for x in nin if x[0] != "C"] == [x for x in nout if x[0] != "C"]:
                classes.append("crossed-anchor")
            # else: the code tokens themselves changed - C01's business, not judged here
    return True, classes, f"output {r!r}"


def oracle_c06(text, leaves):
    if not obs.comments_line_level(text, leaves):
        return False, [], ""
    try:
        r = _roundtrip(text)
    except Exception:
        return True, [], "skipped: rebuild raised"
    try:
        r2 = _roundtrip(r)
    except Exception as e:
        return True, ["second-pass-raises:" + type(e).__name__], f"first {r!r}; second pass {type(e).__name__}"
    if r2 != r:
        return True, ["unstable"], f"first {r!r} second {r2!r}"
    return True, [], ""


def oracle_c18(text, leaves):
    try:
        r = _roundtrip(text)
    except Exception:
        return True, [], "skipped: rebuild raised"
    v = obs.spacing_violations(r)
    return True, v, f"output {r!r}"


ORACLES = {"C01": oracle_c01, "C03": oracle_c03, "C06": oracle_c06, "C18": oracle_c18}


# --------------------------------------------------------------------------- worker

_memo: dict = {}
MINIMISE_CAP = 1500  # per program: distinct minimal failures after which raw cases are reported unminimised (flood control)


def _eval(prop, case: g.Case):
    """-> (admitted, nontrivial, frozenset(classes), detail, text)"""
    key = (prop, case)
    r = _memo.get(key)
    if r is None:
        adm = g.admit(case)
        if adm is None:
            r = (False, False, frozenset(), "", None)
        else:
            text, leaves = adm
            nt, classes, detail = ORACLES[prop](text, leaves)
            r = (True, nt, frozenset(classes), detail, text)
        if len(_memo) > 400_000:
            _memo.clear()
        _memo[key] = r
    return r


def work(unit):
    prop, plan_name, prog, alphabet, max_dev, pair_distance = unit
    atoms = ALPHABETS[alphabet]
    n = adm = 0
    hashes = set()
    outcome = collections.Counter()
    minimal: dict = {}  # (Case, cls) -> [raw_count, detail]
    raw_fail = 0
    samples = []

    def fails(c):
        return _eval(prop, c)[2]

    for case in g.cases_for(prog, atoms, max_dev, pair_distance=pair_distance):
        n += 1
        ok, nt, classes, detail, text = _eval(prop, case)
        if not ok:
            outcome["rejected"] += 1
            continue
        adm += 1
        if nt:
            hashes.add(_h(text))
        if not classes:
            outcome["pass" if not detail.startswith("skipped") else "skipped"] += 1
            continue
        raw_fail += 1
        for cls in classes:
            outcome["fail:" + cls.split(":")[0]] += 1
            if len(minimal) > MINIMISE_CAP and (case, cls) not in minimal:
                # flood of failures for this program: report the raw case instead of minimising
                outcome["not_minimised"] += 1
                minimal[(case, cls)] = [1, detail]
                continue
            for m in g.minimal_cases(case, cls, fails):
                ent = minimal.get((m, cls))
                if ent is None:
                    minimal[(m, cls)] = [1, _eval(prop, m)[3]]
                else:
                    ent[0] += 1
    if n and not samples:
        samples.append(g.Case(prog).text())
    return {
        "plan": plan_name,
        "n": n,
        "admitted": adm,
        "hashes": hashes,
        "outcome": outcome,
        "raw_fail": raw_fail,
        "minimal": [(m, cls, cnt, det) for (m, cls), (cnt, det) in minimal.items()],
        "sample": g.Case(prog).text(),
    }


# --------------------------------------------------------------------------- driver

def units_for(prop, tier):
    units = []
    for name, depth, alphabet, max_dev, dist in PLANS[tier]:
        if depth in ("selfnest", "selfnest5"):
            # every composite construct nested in each of its own holes (chains of the same construct)
            progs = []
            for c in g.COMPOSITE_CONSTRUCTS:
                for h in range(g.n_holes(c)):
                    for d in ((3, 4) if depth == "selfnest" else (3, 4, 5)):
                        p = g.X
                        for _ in range(d):
                            kids = [g.X] * g.n_holes(c)
                            kids[h] = p
                            p = g.P(c, tuple(kids))
                        progs.append(p)
        elif depth == 1:
            progs = list(g.programs(1))
        elif depth == 2:
            progs = list(g.programs(2, constructs=g.COMPOSITE_CONSTRUCTS))
        else:
            d2 = list(g.programs(2, constructs=g.COMPOSITE_CONSTRUCTS, inner=[g.mk(c) for c in g.COMPOSITE_CONSTRUCTS]))
            progs = list(g.programs(3, constructs=D3_CONTEXTS, inner=d2))
        for p in progs:
            units.append((prop, name, p, alphabet, max_dev, dist))
    return units


def owners_of(case: g.Case) -> str:
    """Triage hint: the constructs whose gaps deviate (the renderer most likely responsible)."""
    names = []
    if case.lead:
        names.append("file-lead")
    if case.trail:
        names.append("file-trail")
    for path, sub in g.subtrees(case.prog):
        if sub.gaps:
            names.append(sub.c)
    if not names:
        return "default:" + g.show(case.prog)
    return "+".join(sorted(set(names)))


def sig_of(case: g.Case, cls: str) -> str:
    return cls + "|" + case.text()


def run(prop: str, tier: str) -> core.Report:
    st = g.self_test()
    if st["invalid_defaults"] or [k for k in st["missing_kinds"] if k not in ("comment", "keyword")]:
        raise SystemExit(f"gap-space self-test failed: {st}")
    units = units_for(prop, tier)
    units = core.rotate(units, core.seed())
    results = core.pmap(work, units, chunksize=4)
    total = collections.Counter()
    outcome = collections.Counter()
    per_plan = collections.defaultdict(collections.Counter)
    hashes = set()
    minimal: dict = {}
    samples = []
    for r in results:
        total["evaluations"] += r["n"]
        total["admitted"] += r["admitted"]
        total["raw_fail"] += r["raw_fail"]
        per_plan[r["plan"]]["cases"] += r["n"]
        per_plan[r["plan"]]["admitted"] += r["admitted"]
        per_plan[r["plan"]]["programs"] += 1
        outcome.update(r["outcome"])
        hashes |= r["hashes"]
        for m, cls, cnt, det in r["minimal"]:
            ent = minimal.get((m, cls))
            if ent is None:
                minimal[(m, cls)] = [cnt, det]
            else:
                ent[0] += cnt
    failures = []
    for (m, cls), (cnt, det) in sorted(minimal.items(), key=lambda kv: (kv[0][1], kv[0][0].text())):
        failures.append(
            core.Failure(
                prop=prop,
                sig=sig_of(m, cls),
                cls=cls,
                case={"kind": "e1", "text": m.text(), "program": g.show(m.prog), "lead": m.lead, "trail": m.trail},
                detail=f"input {m.text()!r} -> {det}",
                group=f"{cls}@{owners_of(m)}",
                raw_count=cnt,
            )
        )
    sample_units = core.pick_samples(units, 6)
    for u in sample_units:
        cs = list(g.cases_for(u[2], ALPHABETS[u[3]], 1))
        samples.append(cs[(core.seed() * 31 + 7) % len(cs)].text())
    rules = {
        "C01": "every admitted case (valid program whose code tokens equal the skeleton's) is non-trivial",
        "C03": "admitted cases containing at least one comment",
        "C06": "admitted cases whose comments all sit alone on a line or end a line (the property's precondition)",
        "C18": "every admitted case",
        "C15": "every admitted case (purity of rebuild)",
        "C20": "every admitted case",
    }
    coverage = {
        "evaluations": total["evaluations"],
        "distinct_nontrivial": len(hashes),
        "rule": "cases = program skeleton (catalogue of %d constructs, nesting per plan) x deviating gaps (alphabets FULL=%d / REP=%d atoms, incl. file-leading/trailing gap), enumerated completely per plan; admitted iff tree-sitter accepts the text and its code tokens equal the skeleton's; distinct = distinct texts; non-trivial = %s"
        % (len(g.CATALOGUE), len(g.GAPS_FULL), len(g.GAPS_REP), rules[prop]),
        "samples": samples,
        "exhaustive": True,
        "admitted": total["admitted"],
        "rejected_by_grammar": total["evaluations"] - total["admitted"],
        "raw_failing_cases": total["raw_fail"],
        "plans": {k: dict(v) for k, v in per_plan.items()},
        "outcomes": dict(outcome),
        "distinct_outcome_classes": len(outcome),
        "grammar_node_kinds_covered": f"{st['kinds_seen']}/{st['kinds_total']} at depth 1 (+comment via gap atoms; 'keyword' is never produced by the grammar)",
    }
    return core.Report(
        prop=prop,
        level="exploration",
        coverage=coverage,
        failures=failures,
        assumptions=[
            "tree-sitter-nix 0.1.0 defines 'parses without error' (trailing formals comma allowed in outputs only)",
            "identifier/literal values beyond the catalogue are not varied",
            "bounds: " + "; ".join(f"{n}: depth {d if isinstance(d, int) else 'self-nesting chains'}, alphabet {a}, <= {k} deviations" + (f", pair distance <= {dist}" if dist else "") for n, d, a, k, dist in PLANS[tier]),
            "a failing case is reported through the minimal failing cases it reduces to (DESIGN 1.4)",
        ],
    )


def replay(case: dict, prop: str) -> tuple[bool, str]:
    """Re-run one case on the plain library, twice. -> (violates, observation)"""
    text = case["text"]
    err, leaves = obs.lex(text)
    if err:
        return False, "input is not valid Nix"
    o1 = ORACLES[prop](text, leaves)
    o2 = ORACLES[prop](text, leaves)
    if o1 != o2:
        raise SystemExit("non-deterministic replay: %r vs %r" % (o1, o2))
    return bool(o1[1]), f"classes={o1[1]} {o1[2]}"
