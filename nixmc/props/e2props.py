"""E2-based checks: C04 (locality), C05 (effect), C06b (edit outputs stable), C08 (rejected edits),
C09 (scope selectors)."""
from __future__ import annotations

import collections
import itertools

from .. import core, e2, editmodel as em, obs

# --------------------------------------------------------------------------- plans

REP_STACKS = [(), ("lamf",), ("let2",), ("call",), ("with",), ("lamf", "let1"), ("let1", "call")]
LET_WRAPS = {
    0: "%s",
    1: "let\n  u = 1;\nin\n%s",
    2: "let\n  u = 1;\n  v = 1;\nin\nlet\n  u = 2;\n  w = 3;\nin\n%s",
    3: "let\n  u = 1;\n  v = 1;\nin\nlet\n  u = 2;\n  w = 3;\nin\nlet\n  u = 3;\nin\n%s",
    4: "let\n  u = 1;\n  v = 1;\nin\nlet\n  u = 2;\n  w = 3;\nin\nlet\n  u = 3;\nin\nlet\n  t = 4;\n  u = 4;\nin\n%s",
}
C09_SHAPES = {
    "bare": ("", ""),
    "lam": ("{ p }:\n", ""),
    "call": ("f ", ""),
    "with": ("with p;\n", ""),
    "assert": ("assert c;\n", ""),
    "lamcall": ("{ p }:\nf ", ""),
}
C09_PATHS = ["@u", "@z", "@@u", "@@z", "@@@u", "@@@@u", "@@@@@u", "@u.k", "@w", "@v", "@@v", "@t", "@a", "@@a"]  # @a: a name of the body, not of any layer
C09_VALUES = ["9", "{ k = 1; }"]


class C09Doc:
    """let layers sit between the outer wrapper and the body (or around everything for 'bare')."""

    def __init__(self, shape, n, body="ml2", where="inner"):
        self.shape, self.n, self.body, self.where = shape, n, body, where
        self.layout = "canon"
        self.stack = (shape, n, where)

    BODY = {"ml2": "{\n  a = 1;\n  b = 2;\n}", "empty": "{ }"}

    def text(self):
        pre, post = C09_SHAPES[self.shape]
        body = self.BODY[self.body]
        if self.where == "inner":
            # lets directly around the attribute set (inside the wrapper)
            if self.shape in ("call", "lamcall") and self.n:
                # a let cannot be a call argument without parentheses: put the lets outside the call
                return LET_WRAPS[self.n] % (pre + body) + "\n"
            return pre + (LET_WRAPS[self.n] % body) + post + "\n"
        return LET_WRAPS[self.n] % (pre + body + post) + "\n"

    def name(self):
        return f"c09/{self.shape}/{self.n}/{self.body}/{self.where}"

    def reductions(self):
        if self.n > 0:
            yield C09Doc(self.shape, self.n - 1, self.body, self.where)
        if self.shape != "bare":
            yield C09Doc("bare", self.n, self.body, self.where)
        if self.where != "inner":
            yield C09Doc(self.shape, self.n, self.body, "inner")
        if self.body != "empty":
            yield C09Doc(self.shape, self.n, "empty", self.where)

    def __hash__(self):
        return hash(self.name())

    def __eq__(self, o):
        return isinstance(o, C09Doc) and self.name() == o.name()


def c09_docs(max_layers):
    out = []
    for shape in C09_SHAPES:
        for n in range(max_layers + 1):
            for body in ("ml2", "empty"):
                for where in ("inner", "outer"):
                    if where == "outer" and (shape == "bare" or n == 0):
                        continue
                    out.append(C09Doc(shape, n, body, where))
    return out


PLANS = {
    # name: (docs, ops, depth, depth>=2 ops)
    "quick": lambda prop: [
        ("stack<=1 depth1 all-ops", e2.docs(1), e2.ops(), 1, None),
        ("stack=2 depth1 canon", [d for d in e2.docs(2, bodies=["inline", "attrpath", "empty", "nested"], wrappers=["lamf", "lam", "let1", "let2", "with", "assert", "paren", "call"], layouts=("canon",)) if len(d.stack) == 2], e2.ops(values=["9", "{ k = 1; }", "u", ""]), 1, None),
        ("rep depth2", [e2.Doc(b, st, "canon") for b in e2.BODIES for st in REP_STACKS[:4]], e2.ops(values=["9", "{ k = 1; }", "u", ""]), 2, e2.ops(e2.SMALL_PATHS, e2.SMALL_VALUES)),
    ],
    "thorough": lambda prop: [
        ("stack<=2 depth1 all-ops", e2.docs(2), e2.ops(), 1, None),
        ("stack=3 depth1 canon", [d for d in e2.docs(3, bodies=["inline", "attrpath", "empty", "nested"], wrappers=["lamf", "let1", "let2", "with", "assert", "paren", "call"], layouts=("canon",)) if len(d.stack) == 3], e2.ops(values=["9", "{ k = 1; }", "u", ""]), 1, None),
        ("stack<=1 depth2", e2.docs(1, layouts=("canon",)), e2.ops(), 2, e2.ops(values=["9", "{ k = 1; }", "u", ""])),
        ("rep depth3", [e2.Doc(b, st, "canon") for b in e2.BODIES for st in REP_STACKS], e2.ops(values=["9", "{ k = 1; }", "u", ""]), 3, e2.ops(e2.SMALL_PATHS, e2.SMALL_VALUES)),
    ],
}
C09_PLANS = {
    "quick": lambda: [("layers 0..3 depth2", c09_docs(3), [("set", p, v) for p in C09_PATHS for v in C09_VALUES] + [("rm", p, None) for p in C09_PATHS], 2, None)],
    "thorough": lambda: [("layers 0..4 depth3", c09_docs(4), [("set", p, v) for p in C09_PATHS for v in C09_VALUES] + [("rm", p, None) for p in C09_PATHS], 3, None)],
}
FOLLOWUPS = [("set", "a", "9"), ("rm", "a", None), ("set", "@u", "9"), ("set", "a.z", "9")]
FOLLOWUP_MAX_STACK = 1  # the differential follow-up layer is run from documents with at most this many wrappers

# --------------------------------------------------------------------------- evaluation of one transition

_memo: dict = {}
MINIMISE_CAP = 400  # per document: distinct minimal failures after which raw transitions are reported unminimised (flood control)


def evaluate(prop, doc, hist):
    """Run history `hist` on `doc`; judge its last transition for `prop`.
    -> (outcome, key_after, [(cls, detail)], info)"""
    key = (prop, doc, hist)
    r = _memo.get(key)
    if r is not None:
        return r
    doc_text = doc.text()
    src, outs = e2.replay(doc_text, hist[:-1])
    op = hist[-1]
    try:
        s_text = src.rebuild()
    except Exception as e:
        r = (("err", "rebuild-" + type(e).__name__, ""), None, [], {})
        _memo[key] = r
        return r
    view_s = obs.attr_tree(s_text, want_extents=True)
    expectation = em.expect(view_s, *op)
    before = e2.state_key(src) if prop == "C08" else None
    outcome = e2.apply_op(src, op)
    found = []
    if prop in ("C05", "C09"):
        found = e2.oracle_c05(s_text, view_s, op, outcome, expectation)
        if prop == "C09":
            canonical = _is_canonical(s_text)
            found += [c for c in e2.oracle_c04(s_text, view_s, op, outcome, expectation, canonical)]
    elif prop == "C04":
        canonical = doc.layout == "canon" and _is_canonical(s_text)
        if not any(o[0] == "set" and ("#" in o[2] or "/*" in o[2]) for o in hist):
            # a VALUE that carries its own comment makes "comments attached to the binding" ambiguous
            found = e2.oracle_c04(s_text, view_s, op, outcome, expectation, canonical)
    elif prop == "C06":
        found = e2.oracle_c06(outcome)
    elif prop == "C08":
        fu = FOLLOWUPS if (len(getattr(doc, "stack", ())) <= FOLLOWUP_MAX_STACK and getattr(doc, "layout", "canon") == "canon" and len(hist) <= 1) else ()
        found = e2.oracle_c08(doc_text, hist[:-1], op, before, src, outcome, fu)
        if outcome[0] == "ok" and expectation[0] == "fail":
            # an edit that cannot be applied must be refused loudly
            found.append(("not-refused", f"model: must be refused ({expectation[1]}); returned {outcome[1]!r}"))
        if outcome[0] == "err":
            src = None  # consumed by the follow-ups
    key_after = None
    if outcome[0] == "ok" and src is not None:
        key_after = e2.state_key(src)
    info = {"expect": expectation[0], "outcome": outcome[0] if outcome[0] == "ok" else outcome[1]}
    r = (outcome, key_after, found, info)
    if len(_memo) > 200_000:
        _memo.clear()
    _memo[key] = r
    return r


_canon_memo: dict = {}


def _is_canonical(text):
    r = _canon_memo.get(text)
    if r is None:
        try:
            r = e2.fresh(text).rebuild() == text
        except Exception:
            r = False
        if len(_canon_memo) > 50_000:
            _canon_memo.clear()
        _canon_memo[text] = r
    return r


def minimal(prop, doc, hist, cls):
    seen = {}

    def fails(d, h):
        try:
            return cls in {c for c, _ in evaluate(prop, d, h)[2]}
        except Exception:
            return False

    def reds(d, h):
        for d2 in d.reductions():
            yield d2, h
        for i in range(len(h) - 1):
            yield d, h[:i] + h[i + 1 :]
        if len(h) > 1:
            yield d, h[:-1]  # the defect may already show one step earlier
        for i, op in enumerate(h):
            for op2 in e2.op_reductions(op):
                yield d, h[:i] + (op2,) + h[i + 1 :]

    def go(d, h):
        k = (d, h)
        if k in seen:
            return seen[k]
        seen[k] = frozenset()
        smaller = [(d2, h2) for d2, h2 in reds(d, h) if fails(d2, h2)]
        if not smaller:
            res = frozenset([k])
        else:
            acc = set()
            for d2, h2 in smaller:
                acc |= go(d2, h2)
            res = frozenset(acc)
        seen[k] = res
        return res

    return go(doc, hist)


def work(unit):
    prop, plan, doc, ops1, depth, ops2 = unit
    counters = collections.Counter()
    outcomes = collections.Counter()
    states = {}
    failures = {}
    frontier = collections.deque([()])
    # the initial state
    try:
        src0 = e2.fresh(doc.text())
        k0 = e2.state_key(src0)
    except Exception as e:
        return {"plan": plan, "counters": counters, "outcomes": outcomes, "states": 0, "failures": [], "doc": doc.name(), "broken_doc": f"{type(e).__name__}"}
    states[k0] = ()
    if obs.attr_tree(doc.text()).status == "invalid":
        return {"plan": plan, "counters": counters, "outcomes": outcomes, "states": 0, "failures": [], "doc": doc.name(), "broken_doc": "invalid"}
    sample = None
    while frontier:
        hist = frontier.popleft()
        alphabet = ops1 if (len(hist) == 0 or ops2 is None) else ops2
        for op in alphabet:
            h2 = hist + (op,)
            outcome, key_after, found, info = evaluate(prop, doc, h2)
            counters["transitions"] += 1
            outcomes[f"model={info.get('expect')} impl={'ok' if outcome[0]=='ok' else 'raise'}"] += 1
            if sample is None and outcome[0] == "ok" and len(h2) == depth:
                sample = {"doc": doc.text(), "history": [e2.show_op(o) for o in h2], "result": outcome[1]}
            for cls, detail in found:
                counters["raw_failures"] += 1
                if len(failures) > MINIMISE_CAP:
                    # a flood of failures (a badly broken tree): stop minimising, report the raw case
                    counters["not_minimised"] += 1
                    failures.setdefault((doc, h2, cls), [0, detail])[0] += 1
                    continue
                for d2, hm in minimal(prop, doc, h2, cls):
                    ent = failures.get((d2, hm, cls))
                    if ent is None:
                        det = next((dd for c, dd in evaluate(prop, d2, hm)[2] if c == cls), detail)
                        failures[(d2, hm, cls)] = [1, det]
                    else:
                        ent[0] += 1
            if outcome[0] == "ok" and key_after is not None:
                if found:
                    # a state reached through a transition that already violates the property is reported,
                    # not expanded (its descendants would only repeat the same defect in other words)
                    counters["violating_successor_states_not_expanded"] += 1
                elif obs.attr_tree(outcome[1]).status in ("invalid", "dup"):
                    counters["broken_successor_states_not_expanded"] += 1
                elif key_after in states:
                    counters["merged"] += 1
                else:
                    states[key_after] = h2
                    if len(h2) < depth:
                        frontier.append(h2)
    return {
        "plan": plan,
        "counters": counters,
        "outcomes": outcomes,
        "states": len(states),
        "failures": [(d2.name(), d2.text(), [list(o) for o in hm], cls, cnt, det) for (d2, hm, cls), (cnt, det) in failures.items()],
        "doc": doc.name(),
        "sample": sample,
    }


def run(prop: str, tier: str) -> core.Report:
    if prop == "C19":
        return run_c19(prop, tier)
    plans = C09_PLANS[tier]() if prop == "C09" else PLANS[tier](prop)
    units = []
    for name, ds, ops1, depth, ops2 in plans:
        for d in ds:
            units.append((prop, name, d, ops1, depth, ops2))
    units = core.rotate(units, core.seed())
    results = core.pmap(work, units, chunksize=2)
    counters = collections.Counter()
    outcomes = collections.Counter()
    per_plan = collections.defaultdict(collections.Counter)
    failures = {}
    samples = []
    states = 0
    broken = []
    for r in results:
        counters.update(r["counters"])
        outcomes.update(r["outcomes"])
        states += r["states"]
        per_plan[r["plan"]]["documents"] += 1
        per_plan[r["plan"]]["states"] += r["states"]
        per_plan[r["plan"]]["transitions"] += r["counters"]["transitions"]
        if r.get("broken_doc"):
            broken.append((r["doc"], r["broken_doc"]))
        if r.get("sample"):
            samples.append(r["sample"])
        for name, text, hm, cls, cnt, det in r["failures"]:
            k = (name, tuple(tuple(o) for o in hm), cls)
            if k in failures:
                failures[k][0] += cnt
            else:
                failures[k] = [cnt, det, text]
    fl = []
    for (name, hm, cls), (cnt, det, text) in sorted(failures.items(), key=lambda kv: (kv[0][2], kv[0][0], str(kv[0][1]))):
        hs = " ; ".join(e2.show_op(o) for o in hm)
        fl.append(
            core.Failure(
                prop=prop,
                sig=f"{cls}|{name}|{hs}",
                cls=cls,
                case={"kind": "e2", "doc": text, "doc_name": name, "layout": name.rsplit(":", 1)[-1] if ":" in name else "canon", "history": [list(o) for o in hm]},
                detail=f"doc {text!r} history [{hs}] -> {det}",
                group=f"{cls}@{hm[-1][0]}",
                raw_count=cnt,
            )
        )
    level = "model_checking"
    coverage = {
        "states": states,
        "transitions": counters["transitions"],
        "traces_validated_against_impl": counters["transitions"],
        "samples": core.pick_samples(samples, 4) or samples[:1] or [{"note": "no successful transition"}],
        "evaluations": counters["transitions"],
        "distinct_nontrivial": states,
        "rule": "state = (initial document, operation history), canonicalised as (rebuilt text, structural snapshot of the live object); a transition = one real set_value/remove_value call on a fresh replay; every transition is judged by the oracle; distinct_nontrivial = distinct canonical states",
        "exhaustive": True,
        "states_merged": counters["merged"],
        "raw_failing_transitions": counters["raw_failures"],
        "plans": {k: dict(v) for k, v in per_plan.items()},
        "model_vs_impl_outcomes": dict(outcomes),
        "distinct_outcome_classes": len(outcomes),
        "documents_rejected": broken[:10],
    }
    return core.Report(
        prop=prop,
        level=level,
        coverage=coverage,
        failures=fl,
        assumptions=[
            "no abstract model between checker and code: every explored state is a state of the real objects, every transition a real call (traces_validated_against_impl = transitions)",
            "reference model of the documented set/rm semantics in nixmc/editmodel.py (three-valued: must-succeed / must-refuse / unspecified)",
            "tree-sitter-nix 0.1.0 CST as the independent reader of emitted text",
            "bounds: document alphabet (bodies x wrapper stacks x layouts), operation alphabet and history depth per plan are listed under coverage.plans",
        ],
    )


def replay(case: dict, prop: str):
    if prop == "C19":
        return replay_c19(case)
    doc_text = case["doc"]
    hist = tuple(tuple(o) for o in case["history"])

    class D:
        layout = case.get("layout", "canon")

        def text(self):
            return doc_text

        def reductions(self):
            return iter(())

        def name(self):
            return case.get("doc_name", "replay")

    d = D()
    _memo.clear()
    o1 = evaluate(prop, d, hist)
    _memo.clear()
    o2 = evaluate(prop, d, hist)
    if (o1[0], o1[2]) != (o2[0], o2[2]):
        raise SystemExit("non-deterministic replay")
    return bool(o1[2]), f"outcome={o1[0]} findings={o1[2]}"


# =========================================================================== C19: algebraic laws

C19_VALUES = ["9", "{ k = 1; }", '"s"']


def _paths_of(view: obs.AttrView):
    """Existing leaf paths (as NPath text, value text) of body and layers."""
    out = []

    def seg(n):
        return n if em.IDENT.fullmatch(n) else '"' + n.replace("\\", "\\\\").replace('"', '\\"') + '"'

    def walk(tree, prefix, at):
        for k, v in tree.items():
            if k.startswith("<"):
                continue
            if v[0] == "leaf":
                if v[1] != "<inherit>" and not em.is_reference(v[1]):
                    out.append((at + ".".join(seg(x) for x in prefix + [k]), v[1]))
            elif v[2] != "mixed":
                walk(v[1], prefix + [k], at)

    walk(view.tree, [], "")
    n = len(view.layers)
    for i, layer in enumerate(view.layers):
        walk(layer, [], "@" * (n - i))
    return out


def c19_work(unit):
    doc = unit
    text = doc.text()
    counters = collections.Counter()
    texts = {text}
    fails = []
    view = obs.attr_tree(text, want_extents=True)
    if view.status != "ok" or not _is_canonical(text):
        return {"counters": counters, "states": 0, "fails": [], "doc": doc.name(), "skipped": True}

    def run(hist, live=False):
        """apply hist; CLI style (re-parse between steps) or on one live object. -> list of outcomes"""
        outs = []
        if live:
            src = e2.fresh(text)
            for op in hist:
                o = e2.apply_op(src, op)
                counters["transitions"] += 1
                outs.append(o)
                if o[0] == "ok":
                    texts.add(o[1])
            return outs
        cur = text
        for op in hist:
            o = e2.apply_op(e2.fresh(cur), op)
            counters["transitions"] += 1
            outs.append(o)
            if o[0] != "ok":
                break
            cur = o[1]
            texts.add(cur)
        return outs

    def fail(cls, hist, detail, mode):
        fails.append((cls + ":" + mode, [list(o) for o in hist], detail))

    existing = _paths_of(view)
    fresh_paths = ["z", "@z"] + (["@@z"] if len(view.layers) >= 2 else [])
    all_paths = [p for p, _ in existing] + fresh_paths + ["y.x"]
    for mode in ("reparse", "live"):
        live = mode == "live"
        # idempotence
        for pth in all_paths:
            for v in C19_VALUES:
                o = run([("set", pth, v), ("set", pth, v)], live)
                counters["laws"] += 1
                if len(o) == 2 and o[0][0] == "ok":
                    if o[1][0] != "ok":
                        fail("idempotence-second-set-raises", [("set", pth, v), ("set", pth, v)], f"second identical set raised {o[1][1]}", mode)
                    elif o[1][1] != o[0][1]:
                        fail("idempotence", [("set", pth, v), ("set", pth, v)], f"once {o[0][1]!r} twice {o[1][1]!r}", mode)
        # undo
        for pth in fresh_paths:
            for v in C19_VALUES:
                h = [("set", pth, v), ("rm", pth, None)]
                o = run(h, live)
                counters["laws"] += 1
                if len(o) == 2 and o[0][0] == "ok":
                    if o[1][0] != "ok":
                        fail("undo-rm-raises", h, f"rm of the path just set raised {o[1][1]}: {o[1][2]}", mode)
                    elif o[1][1] != text:
                        fail("undo", h, f"origin {text!r} after set+rm {o[1][1]!r}", mode)
        # redo
        for pth, v0 in existing:
            h = [("rm", pth, None), ("set", pth, v0)]
            o = run(h, live)
            counters["laws"] += 1
            if len(o) == 2 and o[0][0] == "ok":
                mid = obs.attr_tree(o[0][1])
                if mid.status == "ok" and len(mid.layers) != len(view.layers):
                    counters["redo_not_judged_layer_pruned"] += 1  # the rm removed a whole let layer; `set` only re-creates a layer when none is left (C09)
                elif em.expect(mid, *h[1])[0] != "ok":
                    counters["redo_not_judged_model_refuses_or_unspecified"] += 1  # e.g. the rm pruned an outer let layer (C09: deeper selectors do not create layers)
                elif o[1][0] != "ok":
                    fail("redo-set-raises", h, f"set of the removed value raised {o[1][1]}: {o[1][2]}", mode)
                else:
                    v2 = obs.attr_tree(o[1][1])
                    if v2.status != "ok" or obs.plain(v2.tree) != obs.plain(view.tree) or [obs.plain(l) for l in v2.layers] != [obs.plain(l) for l in view.layers]:
                        fail("redo", h, f"attribute tree differs: origin {text!r} after rm+set {o[1][1]!r}", mode)
        # commutation
        for (p1, _), (p2, _) in itertools.combinations(existing, 2):
            if p1 == p2 or p1.startswith(p2 + ".") or p2.startswith(p1 + "."):
                continue
            for v1, v2 in (("9", "8"), ("{ k = 1; }", "9")):
                h1 = [("set", p1, v1), ("set", p2, v2)]
                h2 = [("set", p2, v2), ("set", p1, v1)]
                o1, o2 = run(h1, live), run(h2, live)
                counters["laws"] += 1
                if len(o1) == 2 and len(o2) == 2 and all(x[0] == "ok" for x in o1 + o2):
                    if o1[1][1] != o2[1][1]:
                        fail("commutation", h1, f"{e2.show_op(h1[0])} then {e2.show_op(h1[1])}: {o1[1][1]!r}; reversed: {o2[1][1]!r}", mode)
    return {"counters": counters, "states": len(texts), "fails": fails, "doc": doc.name(), "text": text}


def run_c19(prop: str, tier: str) -> core.Report:
    ds = [d for d in e2.docs(1 if tier == "quick" else 2, layouts=("canon",))]
    ds = core.rotate(ds, core.seed())
    results = core.pmap(c19_work, ds, chunksize=2)
    counters = collections.Counter()
    states = 0
    fl = []
    skipped = 0
    samples = []
    for r in results:
        counters.update(r["counters"])
        states += r["states"]
        if r.get("skipped"):
            skipped += 1
            continue
        for cls, hist, detail in r["fails"]:
            hs = " ; ".join(e2.show_op(tuple(o)) for o in hist)
            fl.append(core.Failure(prop="C19", sig=f"{cls}|{r['doc']}|{hs}", cls=cls, case={"kind": "c19", "doc": r["text"], "doc_name": r["doc"], "history": hist, "law": cls}, detail=f"doc {r['text']!r} [{hs}] -> {detail}", group=cls.split(":")[0]))
        if len(samples) < 3:
            samples.append({"doc": r["text"], "laws": "idempotence/undo/redo/commutation over " + str(len(_paths_of(obs.attr_tree(r["text"])))) + " existing paths"})
    # minimise across documents: keep a failure only if no reduction of its document shows the same (class, history)
    by_key = {(f.cls, f.sig.split("|", 2)[2]): set() for f in fl}
    names = {}
    for f in fl:
        by_key[(f.cls, f.sig.split("|", 2)[2])].add(f.case["doc_name"])
    docs_by_name = {d.name(): d for d in ds}
    keep = []
    for f in fl:
        d = docs_by_name[f.case["doc_name"]]
        k = (f.cls, f.sig.split("|", 2)[2])
        if any(d2.name() in by_key[k] for d2 in d.reductions()):
            continue
        keep.append(f)
    coverage = {
        "states": max(states, 1),
        "transitions": max(counters["transitions"], 1),
        "traces_validated_against_impl": counters["transitions"],
        "samples": samples or [{"note": "none"}],
        "evaluations": counters["laws"],
        "distinct_nontrivial": states,
        "rule": "for every canonical document: all instances of the four laws (idempotence of set, set-fresh/rm undo, rm/set redo, commutation of two sets on distinct existing paths) over its existing and fresh paths x value alphabet, each run both CLI-style (re-parse between steps) and on one live object; states = distinct texts reached",
        "exhaustive": True,
        "law_instances": counters["laws"],
        "documents": len(ds),
        "documents_skipped_not_canonical": skipped,
        "raw_failures": len(fl),
    }
    return core.Report(prop="C19", level="model_checking", coverage=coverage, failures=keep, assumptions=["graph laws compare the implementation with itself (no external expectation)", "documents: bodies x wrapper stacks <= %d, canonical layout only (the property's domain)" % (1 if tier == "quick" else 2)])


def replay_c19(case):
    text = case["doc"]
    hist = [tuple(o) for o in case["history"]]
    mode = case["law"].split(":")[-1]
    outs = []
    for _ in range(2):
        if mode == "live":
            src = e2.fresh(text)
            o = [e2.apply_op(src, op) for op in hist]
        else:
            cur = text
            o = []
            for op in hist:
                x = e2.apply_op(e2.fresh(cur), op)
                o.append(x)
                if x[0] != "ok":
                    break
                cur = x[1]
        outs.append(o)
    if outs[0] != outs[1]:
        raise SystemExit("non-deterministic replay")
    return True, f"law={case['law']} outcomes={outs[0]} (origin {text!r})"
