"""C07 (syntax errors are passed through and never edited) and C20a (only documented failure modes).

Bounded form of "arbitrary text": (i) every single-point damage of every seed program (delete /
duplicate / swap / insert a token, truncate at every byte); (ii) all token strings up to a length
bound over a 36-token alphabet, joined with and without spaces, with surrounding whitespace variants.
"""
from __future__ import annotations

import collections
import contextlib
import io
import itertools
import sys

from .. import core, gapspace as g, obs

ALPHA = ["{", "}", "[", "]", "(", ")", ";", ",", ":", "@", "=", ".", "?", "!", "-", "+", "++", "//", "let", "in", "if", "then", "else", "with", "assert", "rec", "inherit", "or", "x", "1", '"s"', "''s''", "./p", "# c\n", "/*c*/", "${", "/*c*/ /*d*/"]  # last: two block comments on one line, as one token
INSERT = ["{", "}", "[", "]", "(", ")", ";", ",", ":", "@", "=", ".", "?", "!", "-", "++", "let", "in", "if", "then", "else", "with", "assert", "rec", "inherit", "or", "x", '"', "''", "${", "/*"]
WRAPS = [("", ""), ("\n", ""), ("  ", "  "), ("\t\n", "\n\n"), ("\r\n ", " \r\n"), ("", "\r\n\r\n"), ("\x0c\n", "\n\x0b\n\n")]
VALID_DOC = "{ b = 2; }\n"
EDIT_PATHS = ["a", "a.b", "@a", "@@a", "@a.b"]  # every selector kind of the path grammar, tried on every erroneous text


def seed_tokens(prog: g.P):
    """Token list of a program's default rendering (string/path bodies kept as single tokens)."""
    text = g.render(prog)
    err, leaves = obs.lex(text)
    b = text.encode()
    toks = []
    i = 0
    # merge glued leaves (no gap) into one token so that re-joining with spaces stays faithful
    cur = None
    for l in leaves:
        if cur is not None and l.start == cur[1]:
            cur = (cur[0], l.end)
        else:
            if cur is not None:
                toks.append(b[cur[0] : cur[1]].decode())
            cur = (l.start, l.end)
    if cur is not None:
        toks.append(b[cur[0] : cur[1]].decode())
    return toks


def damages(toks, full: bool):
    n = len(toks)
    for i in range(n):
        yield "delete", toks[:i] + toks[i + 1 :]
        yield "duplicate", toks[: i + 1] + toks[i:]
    for i in range(n - 1):
        yield "swap", toks[:i] + [toks[i + 1], toks[i]] + toks[i + 2 :]
    if full:
        for i in range(n + 1):
            for t in INSERT:
                yield "insert", toks[:i] + [t] + toks[i:]


def _main_test(text):
    from nix_manipulator.cli.main import main

    old = sys.stdin
    sys.stdin = io.StringIO(text)
    buf = io.StringIO()
    try:
        with contextlib.redirect_stdout(buf), contextlib.redirect_stderr(io.StringIO()):
            try:
                rc = main(["test"])
            except SystemExit as e:
                rc = e.code
            except Exception as e:
                rc = "raised " + type(e).__name__
    finally:
        sys.stdin = old
    return buf.getvalue(), rc


def judge(text: str, prop: str, full: bool = True):
    """-> (domain_tag, [(cls, detail)])"""
    from nix_manipulator import parse

    erroneous = obs.has_error(text)
    out = []
    try:
        src = parse(text)
        r = src.rebuild()
        raised = None
    except ValueError as e:
        raised = ("ValueError", e)
    except RecursionError as e:
        raised = ("RecursionError", e)
    except Exception as e:
        raised = (type(e).__name__, e)
    if prop == "C20":
        if raised and raised[0] != "ValueError":
            out.append(("internal-error:" + raised[0], f"{text!r}: parse/rebuild raised {raised[0]}: {str(raised[1])[:100]}"))
        return ("erroneous" if erroneous else "valid") + ("/raises" if raised else "/returns"), out
    # C07
    if not erroneous:
        return "valid", []
    if raised:
        out.append(("raises-on-erroneous:" + raised[0], f"{text!r}: parse/rebuild raised {raised[0]} instead of passing the text through"))
        return "erroneous/raises", out
    if r != text:
        out.append(("pass-through-changed", f"{text!r} -> {r!r}"))
    if not src.contains_error:
        out.append(("error-not-flagged", f"{text!r}: tree-sitter reports ERROR/MISSING but contains_error is False"))
    if full:
        # the same through parse_file (bytes written exactly as given)
        import os, tempfile
        from nix_manipulator import parse_file

        fd, path = tempfile.mkstemp(suffix=".nix", prefix="nixmc-c07-")
        try:
            os.write(fd, text.encode("utf-8"))
            os.close(fd)
            try:
                rf = parse_file(path).rebuild()
                if rf != text:
                    out.append(("parse_file-pass-through-changed", f"file holding {text!r} -> parse_file(...).rebuild() {rf!r}"))
            except Exception as e:
                out.append(("parse_file-raises:" + type(e).__name__, f"file holding {text!r}"))
        finally:
            os.unlink(path)
        so, rc = _main_test(text)
        if so != "Fail\n" or rc != 1:
            out.append(("test-verdict", f"nima test on {text!r}: stdout {so!r} exit {rc!r}, expected 'Fail\\n' / 1"))
        from nix_manipulator.cli.manipulations import remove_value, set_value

        for path in EDIT_PATHS:
            for name, call in (("set", lambda: set_value(parse(text), path, "1")), ("rm", lambda: remove_value(parse(text), path))):
                try:
                    res = call()
                    out.append((name + "-edits-erroneous", f"{name} {path} on {text!r} returned {res!r}"))
                except (KeyError, ValueError):
                    pass
                except Exception as e:
                    out.append((name + "-wrong-exception:" + type(e).__name__, f"{name} {path} on {text!r} raised {type(e).__name__}"))
        d = parse(VALID_DOC)
        try:
            res = set_value(d, "a", text)
            out.append(("erroneous-value-accepted", f"set a <{text!r}> on a valid document returned {res!r}"))
        except ValueError:
            if d.rebuild() != VALID_DOC:
                out.append(("value-refused-but-document-changed", f"set a <{text!r}>: document now {d.rebuild()!r}"))
        except Exception as e:
            out.append(("value-wrong-exception:" + type(e).__name__, f"set a <{text!r}> raised {type(e).__name__}"))
    return "erroneous/returns", out


def join(toks, sep):
    return sep.join(toks)


def minimal_tokens(toks, sep, wrap, cls, prop, full, _budget=None):
    """Minimal failing token strings reachable by deleting tokens / dropping the surrounding whitespace
    (evaluated on demand: the shorter texts need not be members of the enumerated plan).
    -> list of (toks, sep, wrap)"""
    if _budget is None:
        _budget = [400]
    smaller = []
    if wrap != ("", ""):
        if any(c == cls for c, _ in judge(join(toks, sep), prop, full)[1]):
            smaller.append((toks, sep, ("", "")))
    if not smaller:
        for i in range(len(toks)):
            t2 = toks[:i] + toks[i + 1 :]
            if not t2:
                continue
            _budget[0] -= 1
            if _budget[0] < 0:
                break
            text = wrap[0] + join(t2, sep) + wrap[1]
            if any(c == cls for c, _ in judge(text, prop, full)[1]):
                smaller.append((t2, sep, wrap))
                break  # one witness is enough: follow it down
    if not smaller:
        return [(toks, sep, wrap)]
    out = []
    for t2, s2, w2 in smaller:
        for m in minimal_tokens(t2, s2, w2, cls, prop, full, _budget):
            if m not in out:
                out.append(m)
    return out


def work(unit):
    kind, prop, payload, full = unit
    tags = collections.Counter()
    fails = []
    n = 0

    def handle(toks, sep, wrap, origin):
        nonlocal n
        text = wrap[0] + join(toks, sep) + wrap[1]
        n += 1
        tag, found = judge(text, prop, full)
        tags[tag] += 1
        for cls, detail in found:
            for mt, ms, mw in minimal_tokens(toks, sep, wrap, cls, prop, full):
                mtext = mw[0] + join(mt, ms) + mw[1]
                det = next((d for c, d in judge(mtext, prop, full)[1] if c == cls), detail)
                fails.append((f"{cls}|{mtext!r}", cls, {"kind": "text", "text": mtext, "full": full}, det))

    if kind == "strings":
        for combo in payload:
            toks = list(combo)
            for sep in (" ", ""):
                if len(toks) == 1 and sep == "":
                    continue
                for wrap in (WRAPS if len(toks) <= 2 else WRAPS[:1]):
                    handle(toks, sep, wrap, "string")
    elif kind == "double":
        # fault sequences: a trailing formals comma (MISSING node for the pinned grammar, valid Nix)
        # followed by every single-point damage of the rest
        for toks in payload:
            handle(toks, " ", ("", ""), "pre-damaged")
            for dk, t2 in damages(toks, True):
                if t2:
                    handle(t2, " ", ("", ""), "double-" + dk)
    elif kind == "damage":
        for prog, dfull in payload:
            toks = seed_tokens(prog)
            for dk, t2 in damages(toks, dfull):
                if t2:
                    handle(t2, " ", ("", ""), dk)
            text = " ".join(toks)
            b = text.encode()
            for cut in range(1, len(b)):
                try:
                    t = b[:cut].decode()
                except UnicodeDecodeError:
                    continue
                n += 1
                tag, found = judge(t, prop, full)
                tags[tag] += 1
                for cls, detail in found:
                    # minimal: the shortest truncation of this program that fails with cls
                    if not any(c == cls for c, _ in (judge(b[: cut - 1].decode("utf-8", "ignore"), prop, full)[1] if cut > 1 else [])):
                        fails.append((f"{cls}|{t!r}", cls, {"kind": "text", "text": t, "full": full}, detail))
            for wrap in WRAPS[1:]:
                # an error deep inside, with surrounding whitespace
                if len(toks) > 2:
                    handle(toks[:-1], " ", wrap, "wrapped-delete-last")
    return n, tags, fails


def run(prop: str, tier: str) -> core.Report:
    L = 3 if tier == "quick" else 4
    units = []
    combos = [c for n in range(1, L + 1) for c in itertools.product(ALPHA, repeat=n)]
    for i in range(0, len(combos), 3000):
        units.append(("strings", prop, combos[i : i + 3000], L <= 3 or False))
    d1 = [(p, True) for p in g.programs(1)]
    d2 = [(p, tier != "quick") for p in g.programs(2, constructs=g.COMPOSITE_CONSTRUCTS)]
    if tier == "quick":
        d2 = d2[::3]
    progs = d1 + d2
    for i in range(0, len(progs), 40):
        units.append(("damage", prop, progs[i : i + 40], True))
    pre = [
        ["{", "a", ",", "b", ",", "}", ":", "{", "c", "=", "1", ";", "d", "=", "[", "x", "]", ";", "}"],
        ["{", "a", ",", "b", ",", "}", ":", "f", "(", "x", ")"],
        ["{", "a", ",", "}", ":", "let", "c", "=", "1", ";", "in", "c"],
    ]
    units.append(("double", prop, pre, True))
    if prop == "C20":
        # C20a also covers the whole E1 space: valid programs must not raise internal errors either
        pass
    units = core.rotate(units, core.seed())
    res = core.pmap(work, units, chunksize=1)
    n = sum(r[0] for r in res)
    tags = collections.Counter()
    fl = {}
    for r in res:
        tags.update(r[1])
        for sig, cls, case, detail in r[2]:
            fl.setdefault(sig, core.Failure(prop=prop, sig=sig, cls=cls, case=case, detail=detail, group=cls))
    nontrivial = sum(v for k, v in tags.items() if k.startswith("erroneous")) if prop == "C07" else n
    level = "fault_enumeration" if prop == "C07" else "exploration"
    cov = {
        "evaluations": n,
        "distinct_nontrivial": nontrivial,
        "rule": f"all {len(combos)} token strings of length <= {L} over a {len(ALPHA)}-token alphabet (joined with and without spaces; 4 surrounding-whitespace variants for length <= 2) + every single-point damage (delete/duplicate/swap a token, insert each of {len(INSERT)} tokens at each gap, truncate at every byte, delete-last with surrounding whitespace) of {len(progs)} seed programs, plus double faults (3 programs with a trailing formals comma x every single-point damage); a text is in C07's domain iff tree-sitter reports ERROR or MISSING; non-trivial = " + ("texts in that domain" if prop == "C07" else "every text"),
        "samples": [" ".join(c) for c in core.pick_samples(combos, 4)] + [" ".join(seed_tokens(p)[:-1]) for p, _ in core.pick_samples(progs, 2)],
        "exhaustive": True,
        "domain_tags": dict(tags),
        "seed_programs": len(progs),
    }
    return core.Report(prop=prop, level=level, coverage=cov, failures=sorted(fl.values(), key=lambda f: f.sig), assumptions=["tree-sitter-nix 0.1.0 decides which texts have a syntax error (ERROR or MISSING node)", "a failing text is reported through a minimal failing text reached by deleting tokens (or, for truncations, bytes)", "`nima test` is called in-process (C16 checks that the subprocess agrees)"])


def replay(case, prop):
    a = judge(case["text"], prop, case.get("full", True))
    b = judge(case["text"], prop, case.get("full", True))
    if a != b:
        raise SystemExit("non-deterministic replay")
    return bool(a[1]), f"{a}"
