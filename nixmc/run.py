"""./check <ID> <quick|thorough> [--collect FILE]   |   ./check --replay <path>"""
from __future__ import annotations

import importlib
import json
import os
import sys
import time

from . import core

# property id -> (module, kwargs)
REGISTRY = {
    "C01": ("nixmc.props.e1", {}),
    "C03": ("nixmc.props.e1", {}),
    "C06": ("nixmc.props.c06", {}),
    "C18": ("nixmc.props.e1", {}),
    "C04": ("nixmc.props.e2props", {}),
    "C05": ("nixmc.props.e2props", {}),
    "C08": ("nixmc.props.e2props", {}),
    "C09": ("nixmc.props.e2props", {}),
    "C19": ("nixmc.props.e2props", {}),
    "C14": ("nixmc.props.c14", {}),
    "C12": ("nixmc.props.c12", {}),
    "C13": ("nixmc.props.c13", {}),
    "C10": ("nixmc.props.c10", {}),
    "C11": ("nixmc.props.c10", {}),
    "C15": ("nixmc.props.c15", {}),
    "C16": ("nixmc.props.c16", {}),
    "C17": ("nixmc.props.c17", {}),
    "C07": ("nixmc.props.textspace", {}),
    "C20": ("nixmc.props.c20", {}),
    "C02": ("nixmc.props.c02", {}),
}


def main(argv=None) -> int:
    argv = list(sys.argv[1:] if argv is None else argv)
    core.bind_repo()
    sys.setrecursionlimit(10000)
    if argv and argv[0] == "--selftest":
        from . import selftest

        return selftest.main()
    if argv and argv[0] == "--replay":
        path = argv[1]
        data = json.load(open(path))
        prop = data["property"]
        modname, kw = REGISTRY[prop]
        mod = importlib.import_module(modname)
        violates, obs_ = mod.replay(data["case"], prop)
        print(f"replay property={prop} class={data.get('class')} violates={violates}")
        print(obs_)
        if violates:
            print(f"VIOLATION property={prop} replay={path}")
        return 1 if violates else 0
    if len(argv) < 2:
        print(__doc__)
        return 2
    prop, tier = argv[0], argv[1]
    collect = None
    if "--collect" in argv:
        collect = argv[argv.index("--collect") + 1]
    if prop not in REGISTRY:
        print(f"unknown property {prop}")
        return 2
    os.environ.setdefault("VERIF_TIER", tier)
    t0 = time.time()
    modname, kw = REGISTRY[prop]
    mod = importlib.import_module(modname)
    report = mod.run(prop, tier, **kw)
    return core.finish(report, tier, t0, collect=collect)


if __name__ == "__main__":
    sys.exit(main())
