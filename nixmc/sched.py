"""E3 - stateless exploration of thread interleavings with iterative preemption bounding.

Real `threading.Thread`s run the real library under a baton scheduler.  Scheduling points sit
immediately before every bytecode access (LOAD_GLOBAL / STORE_GLOBAL / LOAD_NAME / DELETE_GLOBAL) to
an object of the *shared-state census*; everything between two such accesses is thread-local and
commutes.  The census is computed, not hard-coded (see census()).
"""
from __future__ import annotations

import contextvars
import dis
import re
import sys
import threading
import types

IMMUTABLE = (str, bytes, int, float, complex, bool, type(None), frozenset, re.Pattern, types.FunctionType, types.BuiltinFunctionType, type, types.ModuleType, property, staticmethod, classmethod)


def _is_immutable(o, depth=0):
    if isinstance(o, IMMUTABLE):
        return True
    if isinstance(o, tuple):
        return depth < 3 and all(_is_immutable(x, depth + 1) for x in o)
    if type(o).__name__ in ("EmptyLine", "Linebreak", "Comma", "Language", "_TypedDictMeta", "TypeAliasType", "_GenericAlias", "_UnionGenericAlias", "UnionType", "GenericAlias", "_SpecialForm", "TypeVar"):
        return True
    if callable(o) and not isinstance(o, (dict, list, set)):
        return True
    return False


def lib_modules():
    return {n: m for n, m in sys.modules.items() if m is not None and (n == "nix_manipulator" or n.startswith("nix_manipulator."))}


def candidates():
    """Module-level objects of the library that are not immutable constants / classes / functions."""
    out = {}
    for mn, m in lib_modules().items():
        for name, obj in vars(m).items():
            if name.startswith("__"):
                continue
            if _is_immutable(obj):
                continue
            out.setdefault(id(obj), {"obj": obj, "names": set(), "type": type(obj).__name__})
            out[id(obj)]["names"].add((mn, name))
    return out


def _shallow_state(o):
    if isinstance(o, contextvars.ContextVar):
        return ("ctxvar", repr(o.get(None)))
    if isinstance(o, threading.local):
        return ("local", sorted(vars(o).keys()) if hasattr(o, "__dict__") else None)
    if isinstance(o, dict):
        return ("dict", len(o), tuple(list(o.keys())[:50]))
    if isinstance(o, (list, set)):
        return (type(o).__name__, len(o), repr(list(o)[:20]))
    try:
        return ("obj", repr(vars(o))[:200])
    except TypeError:
        return ("obj", repr(o)[:100])


def census(bodies):
    """Shared mutable state, found not hard-coded.  A module-level *name* of the library is shared state if
      (a) it is bound to a ContextVar or a thread-local, or
      (b) some library code rebinds it (`global x` ... STORE_GLOBAL / DELETE_GLOBAL), or
      (c) it is bound to a mutable object whose shallow state changes at some line boundary inside
          library code during a serial, line-traced run of the harness bodies (so a buffer that is
          filled and cleared again within one call is still seen).
    Read-only registries drop out by (c).  -> (set of (module, name), report)"""
    mods = lib_modules()
    cands = candidates()
    watched_names = set()
    for c in cands.values():
        if isinstance(c["obj"], (contextvars.ContextVar, threading.local)):
            watched_names |= c["names"]
    # (b) rebinding of module globals
    rebound = set()
    for mn, m in mods.items():
        for co in _module_code_objects(m):
            for ins in dis.get_instructions(co):
                if ins.opname in ("STORE_GLOBAL", "DELETE_GLOBAL"):
                    rebound.add((mn, ins.argval))
    watched_names |= rebound
    # (c) dynamic test
    dynamic = {i: c for i, c in cands.items() if not (c["names"] & watched_names)}
    last = {i: _shallow_state(c["obj"]) for i, c in dynamic.items()}
    changed = set()
    name_index = {}
    for i, c in dynamic.items():
        for mn, name in c["names"]:
            name_index.setdefault(name, []).append(i)

    def tr(frame, event, arg):
        co = frame.f_code
        if "nix_manipulator" not in co.co_filename:
            return None
        relevant = [i for n in co.co_names for i in name_index.get(n, ())]
        if not relevant:
            return tr if event == "call" else None

        def loc(f, e, a):
            for i in relevant:
                if i in changed:
                    continue
                st = _shallow_state(dynamic[i]["obj"])
                if st != last[i]:
                    changed.add(i)
                    last[i] = st
            return loc

        return loc

    sys.settrace(tr)
    try:
        for b in bodies:
            b()
    finally:
        sys.settrace(None)
    for i in dynamic:
        if _shallow_state(dynamic[i]["obj"]) != last[i]:
            changed.add(i)
    for i in changed:
        watched_names |= dynamic[i]["names"]
    report = {
        "candidates": sorted(f"{mn}.{n}:{c['type']}" for c in cands.values() for mn, n in c["names"]),
        "rebound_globals": sorted(f"{mn}.{n}" for mn, n in rebound),
        "watched": sorted(f"{mn}.{n}" for mn, n in watched_names),
    }
    return watched_names, report


def _module_code_objects(m):
    seen = set()
    out = []

    def add(co):
        if co in seen:
            return
        seen.add(co)
        out.append(co)
        for k in co.co_consts:
            if isinstance(k, types.CodeType):
                add(k)

    def addf(f):
        f = getattr(f, "__wrapped__", f)
        if isinstance(f, types.FunctionType) and f.__module__ == m.__name__:
            add(f.__code__)

    for obj in list(vars(m).values()):
        if isinstance(obj, types.FunctionType):
            addf(obj)
        elif isinstance(obj, type) and getattr(obj, "__module__", "") == m.__name__:
            for v in vars(obj).values():
                addf(getattr(v, "__func__", v))
                if isinstance(v, property):
                    for g in (v.fget, v.fset, v.fdel):
                        if g:
                            addf(g)
    return out


def access_points(watched_names):
    """code object -> set of bytecode offsets that load / store / delete a watched module global."""
    points = {}
    for mn, m in lib_modules().items():
        names = {n for (m2, n) in watched_names if m2 == mn}
        if not names:
            continue
        for co in _module_code_objects(m):
            offs = {ins.offset for ins in dis.get_instructions(co) if ins.opname in ("LOAD_GLOBAL", "STORE_GLOBAL", "LOAD_NAME", "DELETE_GLOBAL") and ins.argval in names}
            if offs:
                points[co] = offs
    return points


def rebound_initial_values(watched_names):
    """(module, name, value) for every watched name that is not a container / context variable:
    plain module globals that library code rebinds.  Restored before every execution."""
    mods = lib_modules()
    out = []
    for mn, n in sorted(watched_names):
        o = getattr(mods[mn], n, None)
        if isinstance(o, (dict, list, set, contextvars.ContextVar, threading.local)):
            continue
        out.append((mods[mn], n, o))
    return out


def shared_containers(watched_names):
    mods = lib_modules()
    out = []
    for mn, n in watched_names:
        o = getattr(mods[mn], n, None)
        if isinstance(o, (dict, list, set)):
            out.append(o)
    return out


class Diverged(Exception):
    pass


_TLS = threading.local()
_MON = {"installed": False, "codes": set()}
TOOL = 4


def _mon_callback(code, offset):
    sc = getattr(_TLS, "sched", None)
    if sc is None:
        return
    if offset in sc.points.get(code, ()):
        sc.point(_TLS.tid)


def install_monitoring(points):
    """sys.monitoring INSTRUCTION events on exactly the code objects that touch shared state
    (no per-call overhead elsewhere)."""
    mon = sys.monitoring
    if not _MON["installed"]:
        mon.use_tool_id(TOOL, "nixmc-sched")
        mon.register_callback(TOOL, mon.events.INSTRUCTION, _mon_callback)
        _MON["installed"] = True
    for co in points:
        if co not in _MON["codes"]:
            mon.set_local_events(TOOL, co, mon.events.INSTRUCTION)
            _MON["codes"].add(co)


class Sched:
    """One execution under a fixed choice sequence (choice 0 = keep running the current thread)."""

    def __init__(self, bodies, choices, points):
        self.bodies = bodies
        self.choices = list(choices)
        self.points = points
        self.n = len(bodies)
        self.sems = [threading.Semaphore(0) for _ in bodies]
        self.done = [False] * self.n
        self.results = [None] * self.n
        self.trace = []  # (thread, number of enabled threads) per scheduling point
        self.step = 0
        self.main = threading.Semaphore(0)
        self.error = None

    def _tracer(self, tid):
        pts = self.points

        def local(frame, event, arg):
            if event == "opcode" and frame.f_lasti in pts[frame.f_code]:
                self.point(tid)
            return local

        def glob(frame, event, arg):
            if frame.f_code in pts:
                frame.f_trace_opcodes = True
                return local
            return None

        return glob

    def point(self, tid):
        i = self.step
        self.step += 1
        enabled = [t for t in range(self.n) if not self.done[t]]
        order = [tid] + [t for t in enabled if t != tid]
        c = self.choices[i] if i < len(self.choices) else 0
        if c >= len(order):
            self.error = f"replay diverged at point {i}: choice {c} but only {len(order)} enabled"
            c = 0
        self.trace.append((tid, len(order)))
        nxt = order[c]
        if nxt != tid:
            self.sems[nxt].release()
            self.sems[tid].acquire()

    def _run_thread(self, tid):
        self.sems[tid].acquire()
        _TLS.sched = self
        _TLS.tid = tid
        try:
            self.results[tid] = self.bodies[tid]()
        except BaseException as e:  # noqa
            self.results[tid] = ("EXC", type(e).__name__, str(e)[:200])
        finally:
            _TLS.sched = None
            self.done[tid] = True
            rest = [t for t in range(self.n) if not self.done[t]]
            if rest:
                self.sems[rest[0]].release()
            else:
                self.main.release()

    def run(self):
        install_monitoring(self.points)
        ths = [threading.Thread(target=self._run_thread, args=(t,), daemon=True) for t in range(self.n)]
        for t in ths:
            t.start()
        self.sems[0].release()
        if not self.main.acquire(timeout=60):
            raise Diverged("deadlock or runaway execution (60 s)")
        for t in ths:
            t.join(10)
        if self.error:
            raise Diverged(self.error)
        return self.results, self.trace


RESET_HOOKS: list = []  # callables run before every execution to put shared state back to its initial value


def run_once(bodies, choices, points):
    """One controlled execution.  The cyclic GC is switched off while the threads run (weak-reference
    callbacks of the library touch shared state; their timing must not depend on allocation counts)
    and a full collection is done at this deterministic place instead."""
    import gc

    was = gc.isenabled()
    gc.disable()
    try:
        for h in RESET_HOOKS:
            h()
        _MON["runs"] = _MON.get("runs", 0) + 1
        if _MON["runs"] % 64 == 1:
            gc.collect()  # between executions only; never while the threads run
        return Sched(bodies, choices, points).run()
    finally:
        if was:
            gc.enable()


def explore(bodies, points, bound, check, on_fail=None, cap=None):
    """All schedules with at most `bound` preemptions. check(results) -> None | str.
    -> dict(schedules, max_points, failing=[(choices, msg)])"""
    stats = {"schedules": 0, "max_points": 0, "failing": [], "capped": False, "outcomes": set()}
    # warm-up (the first traced execution of a code object reports fewer opcode events under
    # CPython 3.13), then prove that the default schedule replays identically
    run_once(bodies, [], points)
    t1 = run_once(bodies, [], points)
    t2 = run_once(bodies, [], points)
    if t1[1] != t2[1] or repr(t1[0]) != repr(t2[0]):
        raise Diverged("the default schedule does not replay identically: uncontrolled nondeterminism")

    def rec(prefix, budget):
        if cap and stats["schedules"] >= cap:
            stats["capped"] = True
            return
        results, trace = run_once(bodies, prefix, points)
        stats["schedules"] += 1
        stats["max_points"] = max(stats["max_points"], len(trace))
        stats["outcomes"].add(repr(results))
        msg = check(results)
        if msg:
            stats["failing"].append((list(prefix), msg))
        if budget == 0:
            return
        for i in range(len(prefix), len(trace)):
            tid, k = trace[i]
            for alt in range(1, k):
                rec(list(prefix) + [0] * (i - len(prefix)) + [alt], budget - 1)

    rec([], bound)
    return stats
