"""Scope-nesting generator + reference resolver for Nix lexical scoping (C10, C11).

A program is a tuple of *levels* (outermost first) around an *innermost shape* that holds the
reference `a`.  The reference resolver below is the boring model: lexical binders innermost
first (let - recursive -, rec set, applied formals / lambda argument, unapplied formals = binder
without value); `with` environments only if no lexical binder exists, innermost `with` first;
plain sets bind nothing; `inherit a` looks the name up outside the set, `inherit (s) a` in `s`.
"""
from __future__ import annotations

import dataclasses
import itertools

LEVEL_KINDS = [
    "let_a", "let_alias", "let_none", "let_selfcycle", "let_2cycle",
    "with_a", "with_none", "withid_a",
    "formals_arg", "formals_default", "lam_arg",
    "lamf_unapplied", "lam_unapplied", "lam_other", "assert", "paren",
    "rec_a", "set_a", "rec_none",
    # forced collisions: a chain through an outer binding whose next link is shadowed further in; layers with identical text;
    # an applied function whose argument is an identifier bound by a let around the call
    "let_z", "let_a_is_z", "let_same", "formals_idarg",
    # a non-cyclic chain that passes through two bindings of the same name: let a = N; in let z = a; in let a = z; in ...
    "let_z_is_a",
]
CORE_KINDS = {"let_z", "let_z_is_a", "let_a_is_z", "let_same", "formals_idarg", "let_a", "let_alias", "let_none", "let_selfcycle", "let_2cycle", "with_a", "with_none", "withid_a", "formals_arg", "formals_default", "rec_a", "set_a", "rec_none"}
PASS_THROUGH = {"lam_other", "assert", "paren"}
INNER_SHAPES = ["plain", "plain_a", "rec_a", "nested_plain_a", "nested_rec_a", "inherit_a", "rec_inherit_a", "inherit_from", "chain_in_rec", "rec_inherit_from_shadowed"]
SAME = 7  # the literal used by every `let_same` level


@dataclasses.dataclass
class Frame:
    kind: str  # 'lex' | 'with'
    binds: dict  # name -> rhs ; rhs = ('lit', n) | ('ref', name, where) | ('novalue',)
    # where: 'self' = resolve in the scope including this frame (let/rec); 'outer' = scope outside this frame


@dataclasses.dataclass
class Program:
    levels: tuple
    inner: str
    text: str
    keys: list  # mapping keys to reach the reference
    frames: list  # outermost first; the reference sits inside all of them
    ref_name: str = "a"
    ref_from: str = "self"  # 'self': look from innermost frame; 'outer': skip the innermost frame (inherit in a rec set)
    literals: dict = dataclasses.field(default_factory=dict)


def build(levels: tuple, inner: str) -> Program:
    lit = 100
    frames: list[Frame] = []
    keys: list[str] = []
    open_parts: list[str] = []
    close_parts: list[str] = []
    for k in levels:
        lit += 1
        n = lit
        if k == "let_a":
            open_parts.append(f"let a = {n}; in ")
            frames.append(Frame("lex", {"a": ("lit", n)}))
        elif k == "let_alias":
            open_parts.append(f"let a = b{n}; b{n} = {n}; in ")
            frames.append(Frame("lex", {"a": ("ref", f"b{n}", "self"), f"b{n}": ("lit", n)}))
        elif k == "let_none":
            open_parts.append(f"let q{n} = {n}; in ")
            frames.append(Frame("lex", {f"q{n}": ("lit", n)}))
        elif k == "let_z":
            open_parts.append(f"let z = {n}; in ")
            frames.append(Frame("lex", {"z": ("lit", n)}))
        elif k == "let_a_is_z":
            open_parts.append("let a = z; in ")
            frames.append(Frame("lex", {"a": ("ref", "z", "self")}))
        elif k == "let_z_is_a":
            open_parts.append("let z = a; in ")
            frames.append(Frame("lex", {"z": ("ref", "a", "self")}))
        elif k == "let_same":
            open_parts.append(f"let a = {SAME}; in ")
            frames.append(Frame("lex", {"a": ("lit", SAME)}))
        elif k == "formals_idarg":
            open_parts.append(f"let g{n} = {{ a = {n}; }}; in ({{ a, ... }}: ")
            close_parts.append(f") g{n}")
            frames.append(Frame("lex", {f"g{n}": ("set", n)}))
            frames.append(Frame("lex", {"a": ("lit", n)}))
        elif k == "let_selfcycle":
            open_parts.append("let a = a; in ")
            frames.append(Frame("lex", {"a": ("ref", "a", "self")}))
        elif k == "let_2cycle":
            open_parts.append(f"let a = c{n}; c{n} = a; in ")
            frames.append(Frame("lex", {"a": ("ref", f"c{n}", "self"), f"c{n}": ("ref", "a", "self")}))
        elif k == "with_a":
            open_parts.append(f"with {{ a = {n}; }}; ")
            frames.append(Frame("with", {"a": ("lit", n)}))
        elif k == "with_none":
            open_parts.append(f"with {{ q{n} = {n}; }}; ")
            frames.append(Frame("with", {f"q{n}": ("lit", n)}))
        elif k == "withid_a":
            open_parts.append(f"let e{n} = {{ a = {n}; }}; in with e{n}; ")
            frames.append(Frame("lex", {f"e{n}": ("set", n)}))
            frames.append(Frame("with", {"a": ("lit", n)}))
        elif k == "formals_arg":
            open_parts.append("({ a, ... }: ")
            close_parts.append(f") {{ a = {n}; }}")
            frames.append(Frame("lex", {"a": ("lit", n)}))
        elif k == "formals_default":
            open_parts.append(f"({{ a ? {n}, ... }}: ")
            close_parts.append(") { }")
            frames.append(Frame("lex", {"a": ("lit", n)}))
        elif k == "lam_arg":
            open_parts.append("(a: ")
            close_parts.append(f") {n}")
            frames.append(Frame("lex", {"a": ("lit", n)}))
        elif k == "lamf_unapplied":
            open_parts.append("{ a }: ")
            frames.append(Frame("lex", {"a": ("novalue",)}))
        elif k == "lam_unapplied":
            open_parts.append("a: ")
            frames.append(Frame("lex", {"a": ("novalue",)}))
        elif k == "lam_other":
            open_parts.append("{ p }: ")
        elif k == "assert":
            open_parts.append("assert true; ")
        elif k == "paren":
            open_parts.append("(")
            close_parts.append(")")
        elif k == "rec_a":
            open_parts.append(f"rec {{ a = {n}; y{n} = ")
            close_parts.append("; }")
            keys.append(f"y{n}")
            frames.append(Frame("lex", {"a": ("lit", n), f"y{n}": ("set", 0)}))
        elif k == "rec_none":
            open_parts.append(f"rec {{ q{n} = {n}; y{n} = ")
            close_parts.append("; }")
            keys.append(f"y{n}")
            frames.append(Frame("lex", {f"q{n}": ("lit", n), f"y{n}": ("set", 0)}))
        elif k == "set_a":
            open_parts.append(f"{{ a = {n}; y{n} = ")
            close_parts.append("; }")
            keys.append(f"y{n}")
        else:
            raise ValueError(k)
    lit += 1
    n = lit
    ref_from = "self"
    ref_name = "a"
    if inner == "plain":
        body = "{ x = a; }"
        keys.append("x")
    elif inner == "plain_a":
        body = f"{{ a = {n}; x = a; }}"
        keys.append("x")
    elif inner == "rec_a":
        body = f"rec {{ a = {n}; x = a; }}"
        keys.append("x")
        frames.append(Frame("lex", {"a": ("lit", n), "x": ("ref", "a", "self")}))
    elif inner == "nested_plain_a":
        body = f"{{ a = {n}; y = {{ x = a; }}; }}"
        keys += ["y", "x"]
    elif inner == "nested_rec_a":
        body = f"rec {{ a = {n}; y = {{ x = a; }}; }}"
        keys += ["y", "x"]
        frames.append(Frame("lex", {"a": ("lit", n), "y": ("set", 0)}))
    elif inner == "inherit_a":
        body = "{ inherit a; }"
        keys.append("a")
    elif inner == "rec_inherit_a":
        body = f"rec {{ inherit a; z = {n}; }}"
        keys.append("a")
        # `inherit a` in a rec set refers to the *enclosing* scope
        frames.append(Frame("lex", {"z": ("lit", n)}))
        ref_from = "outer"
    elif inner == "inherit_from":
        body = f"let s{n} = {{ a = {n}; }}; in {{ inherit (s{n}) a; }}"
        keys.append("a")
        frames.append(Frame("lex", {f"s{n}": ("set", n)}))
        frames.append(Frame("with", {}))  # placeholder, unused
        return Program(levels, inner, "".join(open_parts) + body + "".join(reversed(close_parts)), keys, frames, ref_name="<from>", ref_from=str(n))
    elif inner == "rec_inherit_from_shadowed":
        m = n + 500
        body = f"let s = {{ a = {m}; }}; in rec {{ s = {{ a = {n}; }}; inherit (s) a; x = a; }}"
        keys.append("x")
        frames.append(Frame("lex", {"s": ("set", m)}))
        frames.append(Frame("lex", {"s": ("set", n), "a": ("from", "s"), "x": ("ref", "a", "self")}))
    elif inner == "chain_in_rec":
        body = f"rec {{ b = a; x = b; a = {n}; }}"
        keys.append("x")
        frames.append(Frame("lex", {"a": ("lit", n), "b": ("ref", "a", "self"), "x": ("ref", "b", "self")}))
        ref_name = "b"
    else:
        raise ValueError(inner)
    text = "".join(open_parts) + body + "".join(reversed(close_parts))
    return Program(levels, inner, text, keys, frames, ref_name=ref_name, ref_from=ref_from)


def resolve(p: Program):
    """-> ('bound', literal) | ('unbound',) | ('cycle',) | ('novalue',)"""
    if p.ref_name == "<from>":
        return ("bound", int(p.ref_from), len(p.frames) - 1)
    frames = p.frames
    start = len(frames) - 1
    if p.ref_from == "outer":
        start -= 1
    return _lookup(frames, p.ref_name, start, set())


def _lookup(frames, name, start, visiting, in_chain=False):
    for i in range(start, -1, -1):
        f = frames[i]
        if f.kind == "lex" and name in f.binds:
            return _eval(frames, f.binds[name], i, name, visiting)
    for i in range(start, -1, -1):
        f = frames[i]
        if f.kind == "with" and name in f.binds:
            return _eval(frames, f.binds[name], i - 1, name, visiting)
    return ("unbound-chain",) if in_chain else ("unbound",)


def _eval(frames, rhs, i, name, visiting):
    if rhs[0] == "lit":
        return ("bound", rhs[1], i)
    if rhs[0] == "novalue":
        return ("novalue",)
    if rhs[0] == "set":
        return ("set", rhs[1])
    if rhs[0] == "from":
        src = _lookup(frames, rhs[1], i, visiting | {(i, name)})
        return ("bound", src[1], i) if src[0] == "set" else src
    key = (i, name)
    if key in visiting:
        return ("cycle",)
    visiting = visiting | {key}
    scope = i if rhs[2] == "self" else i - 1
    return _lookup(frames, rhs[1], scope, visiting, True)


def same_ordinal(p: Program, frame_index: int) -> int:
    """Which occurrence (0-based, text order) of the SAME literal the frame at frame_index holds."""
    return sum(1 for j, f in enumerate(p.frames[: frame_index + 1]) if f.binds.get("a") == ("lit", SAME)) - 1


def is_core(p: Program) -> bool:
    return all(k in CORE_KINDS for k in p.levels)


def all_programs(depth: int, kinds=None, inners=None):
    kinds = kinds or LEVEL_KINDS
    inners = inners or INNER_SHAPES
    for n in range(0, depth + 1):
        for levels in itertools.product(kinds, repeat=n):
            if sum(1 for k in levels if k in PASS_THROUGH) > 1:
                continue
            for inner in inners:
                yield build(levels, inner)


def level_reductions(levels: tuple):
    for i in range(len(levels)):
        yield levels[:i] + levels[i + 1 :]
