"""Setup-time self-test: the harness's own observers and models behave on hand-written cases."""
from __future__ import annotations

from . import core, gapspace as g, obs


def main() -> int:
    f = core.bind_repo()
    print("nix_manipulator from", f)
    st = g.self_test()
    assert not st["invalid_defaults"], st
    assert set(st["missing_kinds"]) <= {"comment", "keyword"}, st
    # every whitespace byte of a string body lives inside a leaf
    for t in ['"  a  ${ x }  b  "', "''\n   a  ${ x }\n  b ''", '"\\n  "', "./a/${ x }/b"]:
        err, ls = obs.lex(t)
        b = t.encode()
        for a, c in zip(ls, ls[1:]):
            if a.end != c.start:
                assert a.type in ("${", "identifier") and c.type in ("identifier", "}"), (t, a, c)
    assert obs.spacing_violations("{ a = 1; }") == []
    assert obs.spacing_violations("{ a =  1; }") == ["multi-space@binding"]
    assert obs.valid_modulo_formals_comma("{\n  a,\n}:\nx") and not obs.valid("{\n  a,\n}:\nx")
    assert not obs.valid_modulo_formals_comma("{ a = ; }")
    v = obs.attr_tree('{ p }: let u = 1; in f { a.b = 1; a.c = 2; "x y" = { z = 3; }; inherit q; }')
    assert v.status == "ok" and obs.plain(v.tree) == {"a": {"b": "1", "c": "2"}, "x y": {"z": "3"}, "q": "<inherit>"} and obs.plain(v.layers[0]) == {"u": "1"}
    assert obs.attr_tree("{ a = 1; a = 2; }").status == "dup"
    assert obs.comment_wording("/* a\n   b */") == ("block", ("a", "b"))
    assert obs.comment_wording("#  x ") == ("line", ("x",))
    print("selftest ok")
    return 0
