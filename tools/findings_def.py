"""Hand-maintained mapping from collected failures to finding ids + descriptive metadata.

Used only by tools/triage.py (offline).  The committed artefact is /verif/known_findings.json.
"""
import re

LEADING_WS = {
    "summary": "file starts with whitespace: the root CST node starts at the first token, so every absolute gap offset is shifted against node.text",
    "root_cause": "nix_manipulator/expressions/source_code.py:NixSourceCode.from_cst uses source_bytes = node.text while all gap offsets are absolute; with k leading whitespace bytes every gap is measured k bytes too far right (final newline lost, gaps misclassified, comments dropped or glued)",
    "why_not_fixed": "tests/test_operators.py::test_top_level_with_operator_access and ::test_top_level_with_identifier_operator_access pin the misaligned behaviour (leading newline in the input, expected output without the final newline), so an aligned-offset fix cannot keep the unedited suite green; the pass-through half was repaired (fixed: C07)",
    "rule": {"text_regex": r"\A[ \t\n]"},
}

# (regex over "<prop>|<group>|<text>", finding id) - first match wins
OVERRIDES: list[tuple[str, str]] = [
]

META: dict[str, dict] = {
}


def _text(f):
    c = f.get("case")
    return c.get("text", "") if isinstance(c, dict) else ""


def assign(f):
    text = _text(f)
    if isinstance(f.get("case"), dict) and f["case"].get("kind") == "e1" and text[:1] in (" ", "\t", "\n"):
        return f"{f['prop']}-leading-whitespace"
    key = f"{f['prop']}|{f['group']}|{text}"
    for rx, fid in OVERRIDES:
        if re.search(rx, key, re.S):
            return fid
    if not f.get("group"):
        return None
    return f"{f['prop']}-{f['group']}"


def meta_for(fid, f):
    if fid.endswith("-leading-whitespace"):
        return dict(LEADING_WS)
    if fid in META:
        return dict(META[fid])
    return {
        "summary": f"{f['cls']} - deviating gap(s) in: {f['group'].split('@', 1)[-1]}",
        "root_cause": "see DESIGN.md section 3 (grouped by discrepancy class and the construct whose gap deviates)",
        "why_not_fixed": "recorded, not repaired: one of many independent per-construct trivia-handling defects; see DESIGN.md section 3",
    }
