"""Hand-maintained mapping from collected failures to finding ids + descriptive metadata.

Used only by tools/triage.py (offline).  The committed artefact is /verif/known_findings.json.
"""
import re

LEADING_WS = {
    "summary": "file starts with whitespace: the root CST node starts at the first token, so every absolute gap offset is shifted against node.text",
    "root_cause": "nix_manipulator/expressions/source_code.py:NixSourceCode.from_cst uses source_bytes = node.text while all gap offsets are absolute; with k leading whitespace bytes every gap is measured k bytes too far right (final newline lost, gaps misclassified, comments dropped or glued)",
    "why_not_fixed": "tests/test_operators.py::test_top_level_with_operator_access and ::test_top_level_with_identifier_operator_access pin the misaligned behaviour (leading newline in the input, expected output without the final newline), so an aligned-offset fix cannot keep the unedited suite green; the pass-through half was repaired (fixed: C07)",
    "rule": {"text_regex": r"\A[ \t\n]"},
}

# (regex over "<prop>|<group>|<text>", finding id) - first match wins
OVERRIDES: list[tuple[str, str]] = [
]

META: dict[str, dict] = {
}


def _text(f):
    c = f.get("case")
    return c.get("text", "") if isinstance(c, dict) else ""


E2_RULES = [
    # (finding suffix, predicate(sig, detail))
    ("resolution-error-let-with", lambda s, d: "ResolutionError" in d),
    ("value-with-trailing-comment", lambda s, d: "# c" in s),
    ("quoted-vs-bare-name", lambda s, d: "'\"a\"'" in s),
    ("scope-layer-on-call-argument", lambda s, d: re.search(r"(^|/)call/[a-z0-9]+:|c09/(call|lamcall)/", s.split("|")[1] + ":") is not None and "@" in s.split("|", 2)[2]),
    ("let-not-adjacent-to-target", lambda s, d: re.search(r"let(1|2|ap|2c|set|inh0?)/(lamf|lam|with|assert|paren|call)/|c09/\w+/\d/\w+/outer", s) is not None and "@" in s.split("|", 2)[2]),
    ("scope-selector-falls-back-to-body", lambda s, d: re.search(r"set '(\w+)' .* ; (set|rm) '@\1'", s) is not None or ("/ml2/" in s and "'@a'" in s)),
    ("mixed-explicit-and-attrpath", lambda s, d: re.search(r"[/|]mixed(3|_rev)?:", s) is not None),
    ("layer-prune-drops-comment-between-layers", lambda s, d: "let2c" in s),
    ("inherited-name", lambda s, d: "set 'q'" in s),
    ("explicit-set-under-attrpath-not-editable", lambda s, d: "Mixed explicit bind" in d),
    ("with-wrapper-scope-layout", lambda s, d: re.search(r"(^|[|/])with/", s) is not None),
    ("attrpath-order-cache-stale", lambda s, d: s.split("|")[1] in ("attrpath", "attrpath2", "deep", "scoped-attrpath", "lambda-attrpath")),
]
E2_META = {
    "resolution-error-let-with": ("edits on `let … in with p; { … }` (free `with` environment under a let) die with ResolutionError", "cli/manipulations.py:_resolve_target_set_from_expr resolves the `with` environment eagerly (scopes_for_owner) and the unbound name escapes as ResolutionError, which is neither KeyError nor ValueError"),
    "value-with-trailing-comment": ("a VALUE ending in a line comment is spliced so that the comment swallows the following tokens on inline layouts", "Binding.rebuild emits `name = value; # c` followed by the rest of an inline set on the same line"),
    "quoted-vs-bare-name": ("a quoted path segment never matches a bare name in the file (and vice versa): second definition / KeyError", "cli/manipulations.py:_find_binding compares the *rendered* name, so `\"a\"` and `a` are different keys (same root cause as the C12 finding)"),
    "scope-layer-on-call-argument": ("`@` edits on a call-argument target emit `f let … in { … }`, which is not valid Nix", "rebuild_scoped wraps the argument set in a let without parentheses (expressions/expression.py:rebuild_scoped via FunctionCall.rebuild)"),
    "let-not-adjacent-to-target": ("a `let` separated from the attribute set by a wrapper (lambda/with/assert/parentheses/call) is not seen as a scope layer", "cli/manipulations.py:_collect_scope_layers only looks at layers lifted onto the target set itself"),
    "scope-selector-falls-back-to-body": ("`set @name` with no let layer edits the body binding `name` when it exists instead of creating a layer", "cli/manipulations.py:set_value shortcut `_path_exists_in_attrset`"),
    "mixed-explicit-and-attrpath": ("documents defining a name both explicitly and through attrpaths: edits create duplicates / cannot find members", "set.py:_merge_attrpath_bindings keeps both bindings; path walk only follows one of them"),
    "layer-prune-drops-comment-between-layers": ("pruning an outer let layer drops the comment that stood between its `in` and the next `let`", "cli/manipulations.py:_write_scope_layers / remove_value restore body trivia of the removed layer only when no layer is left"),
    "explicit-set-under-attrpath-not-editable": ("after an attrpath leaf was set to a set literal (`a.b = { k = 1; };`) a deeper path (`a.b.c`) is refused with 'Mixed explicit binding inside attrpath'", "cli/manipulations.py:_set_attrpath_value refuses explicit (non-nested) bindings on the way down an attrpath family"),
    "inherited-name": ("`set` on a name that is only inherited adds a second definition", "cli/manipulations.py:_find_binding ignores Inherit entries"),
    "with-wrapper-scope-layout": ("creating/pruning a let layer under `with p;` rewrites the line break after `with p;` and drops the final newline", "WithStatement.rebuild chooses inline vs multi-line from a preview; remove_value strips the trailing newline when the last layer is pruned"),
    "attrpath-order-cache-stale": ("mapping operations on attrpath-derived bindings leave the rebuilt text unchanged", "AttributeSet.__setitem__/__delitem__ (and Scope) update `values` but not the `attrpath_order` render cache"),
}


OTHER_RULES = {
    "C10": [
        ("scope-chain-lost-behind-wrapper", lambda s, d: "with" in s.split("|")[1] and any(w in s for w in ("paren", "assert", "lam_other", "unapplied"))),
        ("let-around-call-not-visible-under-with", lambda s, d: "with" in s.split("|")[1]),
        ("inherit-in-rec-set-reported-cyclic", lambda s, d: "rec_inherit_a" in s),
        ("chain-link-resolved-in-inner-scope", lambda s, d: "let_a_is_z" in s),
    ],
    "C11": [
        ("scope-chain-lost-behind-wrapper", lambda s, d: "with" in s.split("|")[2] and any(w in s for w in ("paren", "assert", "lam_other", "unapplied"))),
        ("cli-outer-with-member-rewritten-instead-of-rec-binder", lambda s, d: "with" in s.split("|")[2]),
        ("lambda-argument-not-writable", lambda s, d: "lam_arg" in s),
        ("cli-sibling-and-outer-scope-fallbacks", lambda s, d: True),
    ],
    "C12": [
        ("bare-segment-trailing-newline", lambda s, d: s.startswith("accepts-malformed")),
        ("keyword-written-bare", lambda s, d: any(("'%s'" % k) in s for k in ("if", "then", "else", "let", "in", "with", "assert", "rec", "inherit"))),
        ("quoted-vs-bare-name", lambda s, d: True),
    ],
    "C16": [
        ("file-channel-translates-crlf", lambda s, d: "crlf" in s),
    ],
    "C20": [
        ("exponential-inherit-source-preview", lambda s, d: "inherit" in s),
        ("exponential-with-body-preview", lambda s, d: "with" in s),
        ("exponential-assert-condition-preview", lambda s, d: "assert" in s),
    ],
    "C13": [
        ("negative-number-in-list", lambda s, d: "[ -" in d or " -" in d and "[" in d),
        ("float-exponent-form", lambda s, d: "e+" in d or "e-" in d),
    ],
}
OTHER_META = {
    "scope-chain-lost-behind-wrapper": ("an enclosing let / formal is not part of the scope chain once parentheses, an assert or a lambda head stands between it and a `with`: the with member is returned (or rewritten) although an outer lexical binder (or an unapplied formal) binds the name", "source_code.py:_resolve_target_set / resolution.py:attach_resolution_context do not carry the inherited chain through Parenthesis / Assertion / FunctionDefinition, and unapplied formals are not represented as a scope at all"),
    "with-shadows-lexical-binders": ("a `with` environment is consulted before enclosing let / rec / formal binders", "resolution.py:scopes_for_owner appends the with-environment scope after the lexical scopes and identifier.py:_resolve_identifier searches innermost-last, so `with` wins over every lexical binder outside it"),
    "inherit-in-rec-set-reported-cyclic": ("`rec { inherit a; }` reached through the document reports a cyclic inherit instead of the enclosing binding", "set.py:AttributeSet.__getitem__ builds the chain scopes_for_owner(self)+[self] and for a rec set scopes_for_owner already contains the set itself, so the inherit finds itself"),
    "chain-link-resolved-in-inner-scope": ("the next link of a reference chain is looked up from a scope that is further in than the binding holding it (a rec set between them): `let a = z; in let z = 2; in rec { … x = a; }` resolves to 2 although z is not in scope of `a = z`", "resolution.py:scopes_for_owner re-attaches the whole accumulated chain to the rec set's scope, and identifier.py:_resolve_binding then continues from there"),
    "lambda-argument-not-writable": ("assignment through a reference bound by `(a: …) v` does not change the document", "resolution.py:function_call_scope builds a throw-away Binding for the positional argument; the setter updates that copy"),
    "cli-sibling-and-outer-scope-fallbacks": ("the CLI rewrites a sibling / outer binding that Nix scoping does not designate (non-rec sibling, outermost let instead of the innermost binder)", "cli/manipulations.py:_set_value_in_attrset falls back to let_bindings of the *top-level* expression and to sibling_binding of a non-recursive set"),
    "bare-segment-trailing-newline": ("a bare path segment followed by a newline is accepted and written unquoted (the name silently loses the newline)", "cli/manipulations.py:_NPATH_IDENTIFIER_RE uses `$`, which matches before a trailing newline"),
    "keyword-written-bare": ("Nix keywords are accepted as bare path segments and written bare (`{ if = 1; }`), which is not valid Nix", "cli/manipulations.py:_format_attr_name only checks the identifier regex"),
    "quoted-vs-bare-name": ("bare and quoted spellings of the same name are different keys: duplicate definitions / KeyError on rm", "cli/manipulations.py:_find_binding/_find_named_binding compare the rendered spelling, not the decoded name"),
    "file-channel-translates-crlf": ("`-f FILE` reads with universal-newline translation while stdin does not: a CRLF file is reported OK by `nima test -f` and Fail through stdin", "cli/parser.py: argparse.FileType('r') opens in text mode with newline=None"),
    "exponential-inherit-source-preview": ("nested `inherit (src) …;` sources are rendered twice per level (preview, then real pass): 2^n rebuild calls", "inherit.py:Inherit.rebuild renders from_expression once as `source_preview` and again for the output"),
    "exponential-with-body-preview": ("`with e; with f; … <multi-line body>` renders every body twice per level", "with_statement.py:WithStatement.rebuild renders the body inline first and, if that contains a newline, again in multi-line mode"),
    "exponential-assert-condition-preview": ("an `assert` whose condition starts on the next line renders the condition twice per level (2^n for nested assert conditions)", "assertion.py:Assertion.rebuild renders an inline preview of the condition and then the multi-line form"),
    "negative-number-in-list": ("negative numbers are rendered bare inside lists (`[ -1 ]`), a syntax error", "list.py:NixList.rebuild does not parenthesise unary minus"),
    "float-exponent-form": ("floats whose repr uses an exponent render as `1e-07` / `1e+16`, which Nix reads as something else", "expression.py:coerce_expression uses repr(value)"),
}


def _other_assign(f):
    s, d = f["sig"], f.get("detail", "")
    for name, pred in OTHER_RULES.get(f["prop"], []):
        try:
            if pred(s, d):
                return f"{f['prop']}-{name}"
        except Exception:
            continue
    return None


def _e2_assign(f):
    s, d = f["sig"], f.get("detail", "")
    for name, pred in E2_RULES:
        try:
            if pred(s, d):
                return f"{f['prop']}-{name}"
        except Exception:
            continue
    return None


def assign(f):
    if isinstance(f.get("case"), dict) and f["case"].get("kind") in ("e2", "c19", "c14"):
        return _e2_assign(f)
    if f["prop"] in OTHER_RULES:
        return _other_assign(f)
    text = _text(f)
    if isinstance(f.get("case"), dict) and f["case"].get("kind") == "e1" and text[:1] in (" ", "\t", "\n"):
        return f"{f['prop']}-leading-whitespace"
    key = f"{f['prop']}|{f['group']}|{text}"
    for rx, fid in OVERRIDES:
        if re.search(rx, key, re.S):
            return fid
    if not f.get("group"):
        return None
    if f["prop"] == "C18":
        return f"C18-{f['cls']}"  # kind@enclosing CST node type of the offending gap
    owners = f["group"].split("@", 1)[-1]
    if owners.startswith("default:"):
        owners = "default-rendering"
    return f"{f['prop']}-{f['cls'].split(':')[0]}@{owners}"


def meta_for(fid, f):
    if fid.endswith("-leading-whitespace"):
        return dict(LEADING_WS)
    if fid in META:
        return dict(META[fid])
    suffix = fid.split("-", 1)[1] if "-" in fid else fid
    if suffix in OTHER_META:
        return {"summary": OTHER_META[suffix][0], "root_cause": OTHER_META[suffix][1], "why_not_fixed": "recorded, not repaired in this session; see DESIGN.md section 3"}
    if suffix in E2_META:
        return {"summary": E2_META[suffix][0], "root_cause": E2_META[suffix][1], "why_not_fixed": "recorded, not repaired in this session (behavioural change wider than a minimal patch); see DESIGN.md section 3"}
    return {
        "summary": (f"{f['cls'].split('@')[0]} inside a {f['cls'].split('@')[-1]} node of the output" if f["prop"] == "C18" else f"{f['cls']} - deviating gap(s) in: {f['group'].split('@', 1)[-1].split(':')[0]}"),
        "root_cause": "see DESIGN.md section 3 (grouped by discrepancy class and the construct whose gap deviates)",
        "why_not_fixed": "recorded, not repaired: one of many independent per-construct trivia-handling defects; see DESIGN.md section 3",
    }
