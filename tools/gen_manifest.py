#!/venv/bin/python
"""Regenerate /verif/MANIFEST.json from the table below and validate it against the schema."""
import json
import os
import subprocess
import sys

HERE = os.path.dirname(os.path.abspath(__file__))
VERIF = os.path.dirname(HERE)

E1_NOTE = (
    "Trusted base: tree-sitter-nix 0.1.0 as the definition of 'parses without error' (a trailing formals comma is "
    "allowed in outputs only), the catalogue of constructs/gap atoms in nixmc/gapspace.py. Bounds per tier are in the "
    "evidence file (nesting depth, gap alphabet, number of simultaneous deviating gaps). Known defects of the pinned "
    "tree are listed in known_findings.json by minimal failing input."
)

CHECKS = {
    "C01": dict(
        cat="exploration",
        text="Bounded-exhaustive exploration of the syntax space (every catalogue construct nested to the stated depth x every gap atom in every gap, up to 2 simultaneous deviations) on the real parse/rebuild; oracle = code-token sequence of the tree-sitter CST of input vs output modulo the three licensed normalisations. Exhaustive within the bound, silent outside it.",
        ref="DESIGN.md 1.3 (E1), 2/C01",
        note=E1_NOTE,
        technique="explicit-state bounded-exhaustive enumeration of skeleton x gap-deviation space, real implementation, CST token oracle, lattice minimisation",
    ),
    "C03": dict(
        cat="exploration",
        text="Same exhaustive syntax-space sweep restricted to gap atoms holding comments; oracle = sequence of comments (by wording) interleaved with anchor tokens must be identical in input and output CST.",
        ref="DESIGN.md 1.3 (E1), 2/C03",
        note=E1_NOTE,
        technique="bounded-exhaustive enumeration of comment placements (every gap x comment kind), real implementation, CST anchor-sequence oracle",
    ),
    "C06": dict(
        cat="exploration",
        text="Exhaustive syntax-space sweep restricted to the property's precondition (comments alone on a line or ending a line): second round trip must return identical bytes; plus every text emitted by the edit explorer (added with E2).",
        ref="DESIGN.md 1.3 (E1), 2/C06",
        note=E1_NOTE,
        technique="bounded-exhaustive enumeration of inputs, fixed-point check parse(r).rebuild()==r on the real implementation",
    ),
    "C18": dict(
        cat="exploration",
        text="Exhaustive syntax-space sweep; oracle = lexical scan of every inter-leaf gap of the output CST for the spacing normal form (tabs, trailing blanks, blank-line runs, multi-space, detached ;/:, closer and own-line comment indentation), classes tagged with the enclosing CST node type.",
        ref="DESIGN.md 1.3 (E1), 2/C18",
        note=E1_NOTE,
        technique="bounded-exhaustive enumeration of inputs, lexical normal-form scan of the output CST",
    ),
}

NOT_YET = {
}


def main():
    props = [json.loads(l) for l in open(os.path.join(VERIF, "properties.jsonl"))]
    checks = []
    na = []
    for p in props:
        pid = p["id"]
        c = CHECKS.get(pid)
        if c is None:
            na.append({"property_id": pid, "reason": NOT_YET.get(pid, "check not built yet in this session (planned, see DESIGN.md section 2); not claimed until its explorer exists")})
            continue
        checks.append(
            {
                "property_id": pid,
                "quick_cmd": f"./check {pid} quick",
                "thorough_cmd": f"./check {pid} thorough",
                "evidence_file": f"/verif/evidence/{pid}.json",
                "replay_cmd_template": "./check --replay {path}",
                "engine": "nixmc",
                "level_claimed": {"category": c["cat"], "text": c["text"], "design_ref": c["ref"]},
                "level_note": c["note"],
                "technique": c["technique"],
            }
        )
    man = {
        "version": 1,
        "setup_cmd": "./check --selftest",
        "hooks": {
            "guard": "NIMA_VERIF",
            "enable": "no source hooks are needed: all observation is done from outside (module globals, sys.settrace, wrappers installed by the harness); ./check exports NIMA_VERIF=1 for uniformity",
            "baseline_off_cmd": "cd /repo && env -u NIMA_VERIF /venv/bin/python -m pytest -ra -q -p no:cacheprovider --timeout=900 --continue-on-collection-errors",
            "source_commits": [],
            "add_only": True,
        },
        "engines": [
            {
                "name": "nixmc",
                "path": "/verif/nixmc",
                "serves_properties": [c["property_id"] for c in checks],
                "kind_free_text": "hand-written explicit-state / stateless explorers in Python running the real library: E1 syntax-space (gap) explorer, E2 edit-history BFS, E3 thread-schedule explorer with preemption bounding; reference models and CST observers independent of nix_manipulator",
            }
        ],
        "checks": checks,
        "not_applicable": na,
        "notes": "All checks import nix_manipulator from /repo's working tree (PYTHONPATH, no build step, no caches). known_findings.json lists genuine defects of the pinned tree by minimal failing input; fixed: entries record repaired ones.",
    }
    out = os.path.join(VERIF, "MANIFEST.json")
    json.dump(man, open(out, "w"), indent=1, ensure_ascii=False)
    r = subprocess.run(
        ["python3-vt", "-c", "import json,jsonschema,sys; jsonschema.validate(json.load(open(sys.argv[1])), json.load(open('/root/.vp/MANIFEST.schema.json'))); print('MANIFEST valid:', len(json.load(open(sys.argv[1]))['checks']), 'checks')", out],
        capture_output=True, text=True,
    )
    print(r.stdout, r.stderr)
    return r.returncode


if __name__ == "__main__":
    sys.exit(main())
