#!/venv/bin/python
"""Regenerate /verif/MANIFEST.json from the table below and validate it against the schema."""
import json
import os
import subprocess
import sys

HERE = os.path.dirname(os.path.abspath(__file__))
VERIF = os.path.dirname(HERE)

E1_NOTE = (
    "Trusted base: tree-sitter-nix 0.1.0 as the definition of 'parses without error' (a trailing formals comma is "
    "allowed in outputs only), the catalogue of constructs/gap atoms in nixmc/gapspace.py. Bounds per tier are in the "
    "evidence file (nesting depth, gap alphabet, number of simultaneous deviating gaps). Known defects of the pinned "
    "tree are listed in known_findings.json by minimal failing input."
)

CHECKS = {
    "C01": dict(
        cat="exploration",
        text="Bounded-exhaustive exploration of the syntax space (every catalogue construct nested to the stated depth x every gap atom in every gap, up to 2 simultaneous deviations) on the real parse/rebuild; oracle = code-token sequence of the tree-sitter CST of input vs output modulo the three licensed normalisations. Exhaustive within the bound, silent outside it.",
        ref="DESIGN.md 1.3 (E1), 2/C01",
        note=E1_NOTE,
        technique="explicit-state bounded-exhaustive enumeration of skeleton x gap-deviation space, real implementation, CST token oracle, lattice minimisation",
    ),
    "C03": dict(
        cat="exploration",
        text="Same exhaustive syntax-space sweep restricted to gap atoms holding comments; oracle = sequence of comments (by wording) interleaved with anchor tokens must be identical in input and output CST.",
        ref="DESIGN.md 1.3 (E1), 2/C03",
        note=E1_NOTE,
        technique="bounded-exhaustive enumeration of comment placements (every gap x comment kind), real implementation, CST anchor-sequence oracle",
    ),
    "C06": dict(
        cat="exploration",
        text="Exhaustive syntax-space sweep restricted to the property's precondition (comments alone on a line or ending a line): second round trip must return identical bytes; plus every text emitted by the edit explorer (added with E2).",
        ref="DESIGN.md 1.3 (E1), 2/C06",
        note=E1_NOTE,
        technique="bounded-exhaustive enumeration of inputs, fixed-point check parse(r).rebuild()==r on the real implementation",
    ),
    "C18": dict(
        cat="exploration",
        text="Exhaustive syntax-space sweep; oracle = lexical scan of every inter-leaf gap of the output CST for the spacing normal form (tabs, trailing blanks, blank-line runs, multi-space, detached ;/:, closer and own-line comment indentation), classes tagged with the enclosing CST node type.",
        ref="DESIGN.md 1.3 (E1), 2/C18",
        note=E1_NOTE,
        technique="bounded-exhaustive enumeration of inputs, lexical normal-form scan of the output CST",
    ),
}

E2_NOTE = (
    "No abstract model sits between checker and code: states are real document objects, transitions real "
    "set_value/remove_value (or mapping) calls, so traces_validated_against_impl = transitions. Trusted base: the "
    "reference model of the documented edit semantics (nixmc/editmodel.py, three-valued), the independent attribute-tree "
    "decoder over the tree-sitter CST (nixmc/obs.py). Bounds (document alphabet, operation alphabet, history depth) are in "
    "the evidence file. Known defects are listed in known_findings.json by minimal (document, history)."
)
CHECKS.update({
    "C04": dict(cat="model_checking", text="Explicit-state BFS over edit histories on real documents (bodies x wrapper stacks x layouts); every successful transition whose effect the model defines is checked for locality: token sequence (and, on canonical documents, bytes) of the output equal the input's except one replaced value / one inserted binding / one removed binding with attached comments.", ref="DESIGN.md 1.3 (E2), 2/C04", note=E2_NOTE, technique="explicit-state BFS over operation histories on the real implementation, state merging on (text, structural snapshot), token/byte locality oracle"),
    "C05": dict(cat="model_checking", text="Explicit-state BFS over edit histories; every transition is compared with a three-valued reference model of the documented set/rm semantics (must succeed with tree T / must be refused / unspecified) through an independent CST decoder of the emitted text: validity, no duplicate definitions, exact attribute tree and let layers, form of new attrpath members, refusals that depend on the wrapper stack.", ref="DESIGN.md 1.3 (E2), 2/C05", note=E2_NOTE, technique="explicit-state BFS over operation histories, lock-step comparison with a reference model, real implementation"),
    "C08": dict(cat="model_checking", text="Every failing transition of the E2 graph: exception type in {KeyError, ValueError}, structural snapshot and rebuilt text of the live document identical before/after, and a differential follow-up layer (same next operation on the live object vs on a document that never saw the failed call).", ref="DESIGN.md 2/C08", note=E2_NOTE, technique="explicit-state BFS with fault transitions: state-snapshot equality after every failing call + differential replay"),
    "C09": dict(cat="model_checking", text="Explicit-state BFS over scoped set/rm histories on documents with 0..3 (thorough 0..4) nested let layers around every editable shape, same name bound in several layers; reference model = list of dicts addressed by selector depth; plus locality of every scoped edit (other layers and body keep their text).", ref="DESIGN.md 2/C09", note=E2_NOTE, technique="explicit-state BFS over scoped edit histories, list-of-dicts layer model, real implementation"),
    "C14": dict(cat="model_checking", text="Explicit-state BFS over histories of mapping get/set/delete on the document, a nested set, a non-mapping value and the scope mapping; a plain dict runs in lock-step; after every transition dict model == mapping lookups == attribute tree decoded from the rebuilt text; missing keys raise KeyError without side effects; plus every history of set/del/get over the key spellings a / quoted a / z / quoted z judged by the laws that hold whether or not the two spellings are one key.", ref="DESIGN.md 2/C14", note=E2_NOTE, technique="explicit-state BFS over mapping-operation histories with a dict reference model in lock-step"),
    "C19": dict(cat="model_checking", text="All instances of the four algebraic laws (idempotence, set-fresh/rm undo, rm/set redo, commutation) over every existing and fresh path of every canonical document in the bound, each executed CLI-style (re-parse between steps) and on one live object; the implementation is compared with itself.", ref="DESIGN.md 2/C19", note=E2_NOTE, technique="exhaustive enumeration of operation pairs/triples (paths of the state graph that must close) on the real implementation"),
})

CHECKS.update({
    "C10": dict(cat="model_checking", text="(a) Every nesting of scoping constructs up to the depth bound (let/rec/plain sets/with/inherit/applied and unapplied functions/pass-through wrappers, the name bound at several levels, chains and cycles) is resolved through the real document and compared with a reference resolver for Nix lexical scoping; (b) BFS over create/resolve/drop histories of several documents in one process with the identity-keyed context registry invariant checked after every step.", ref="DESIGN.md 2/C10", note="Trusted base: the reference resolver nixmc/scopes.py (60 lines of lexical scoping), reaching applied-function bodies through attach_resolution_context as the repository's tests do. Explicit refusals on bound names are violations only inside the documented core constructs.", technique="bounded-exhaustive enumeration of scope nestings vs a reference resolver + explicit-state BFS over document-lifecycle histories with a registry invariant"),
    "C11": dict(cat="model_checking", text="The C10 nestings with unique literals everywhere; `set x 77` through the CLI path and `ref.value = 77` through the API; the single token that may change is the literal the reference resolver designates (or the reference itself when the name is unbound).", ref="DESIGN.md 2/C11", note="Trusted base: reference resolver nixmc/scopes.py; token-level diff over the tree-sitter CST. Valueless binders, cycles and API writes to unbound names are not judged.", technique="bounded-exhaustive enumeration of scope nestings x edit entry points, single-token-diff oracle named by a reference resolver"),
    "C12": dict(cat="exploration", text="All names up to a length bound over a 16-character alphabet (+ keywords) x every legal spelling x (set on empty set, second set / rm with every equivalent spelling, 2-segment paths, spellings already in the file); all path texts up to a length bound against a reference NPath tokenizer.", ref="DESIGN.md 2/C12", note="Trusted base: independent Nix string decoder and reference tokenizer of the documented NPath grammar (nixmc/editmodel.py); shapes the documentation does not settle (text glued behind a closing quote) are not judged.", technique="exhaustive enumeration of all strings up to a length bound, round-trip through an independent decoder"),
    "C13": dict(cat="exploration", text="All nested Python values in the bound (strings over the escaping alphabet, ints, bools, None, floats, lists and dicts to nesting 3) x 12 construction contexts (constructors, item assignment into one-line / multi-line sets, over an existing equal-but-differently-typed value, twice, scope mapping); the rendered text is read back by an independent CST reader and compared type-exactly; double rendering and re-parse stability.", ref="DESIGN.md 2/C13", note="Trusted base: independent CST-to-Python reader (own unescaper). NUL is excluded from the alphabet (Nix strings cannot represent it).", technique="exhaustive enumeration of a bounded value space x contexts, independent read-back"),
})

CHECKS.update({
    "C15": dict(cat="model_checking", text="Exhaustive sub-checks: (1) purity - structural snapshot before/after rebuild and three consecutive rebuilds over the E1 space, every state of the depth-2 edit graph, and every composite construct with each leaf replaced by each of 10 programmatically constructed values; (2) thread schedules - stateless exploration of every interleaving of 2-3 real threads (each on its own document, chosen to collide on the source-bytes / source-path context variables, the per-thread parser and the identity-keyed context registry) with at most 2 (thorough: 3 for two-thread harnesses) preemptions, scheduling points at every bytecode access to a shared-state object found by a census; (3) all k! processing orders of k documents in one process against fresh-process results, and a pool of ~4 600 small documents (every construct x comment / blank-line placement) processed forward, in reverse and interleaved against each document alone in a pristine forked child; (4) digests under 4 hash seeds x 3 working directories.", ref="DESIGN.md 2/C15", note="Trusted base: CPython 3.13 sys.monitoring INSTRUCTION events and threading.Semaphore hand-off; the census (ContextVars, thread-locals, rebound module globals, containers whose state changes during a line-traced serial run); cyclic GC is switched off while threads run and collected between executions; every execution starts from emptied shared containers. Interleavings inside tree-sitter's C parser are not modelled (each thread owns its parser).", technique="stateless model checking of thread interleavings on the real implementation (controlled scheduler, iterative preemption bounding, replay-verified counterexamples) + exhaustive purity/history/configuration enumeration"),
    "C16": dict(cat="exploration", text="Input class x command x channel as real subprocesses `python -m nix_manipulator` (plus a second-round `test` on every emitted text) and many in-process main() calls per document over the E2 operation alphabet; stdout, exit status and channel agreement are compared with the library result computed in the harness.", ref="DESIGN.md 2/C16", note="Reference = parse/rebuild/set_value/remove_value called directly; subprocess environment PYTHONUTF8=1.", technique="exhaustive product enumeration (input class x command x channel) with a differential oracle against the library API"),
    "C17": dict(cat="exploration", text="Directory layout x import chains of 1-3 hops (every hop spelling: ./ ../ bare a/b, detour, absolute) x 6 working directories x 4-6 entry-path spellings (absolute, relative, ./relative, detour, directory part ending in ..) x chdir between parse and lookup; decoys with different values in every directory and in a mirror tree make a wrong base yield a wrong value; error shapes (string argument, call argument, <spath>, missing file).", ref="DESIGN.md 2/C17", note="Scratch tree created and removed by the check; values planted by the harness are the oracle.", technique="exhaustive product enumeration of layouts/chains/working directories with planted-value oracle"),
})

TEXT_NOTE = "Trusted base: tree-sitter-nix 0.1.0 decides which texts contain a syntax error (ERROR or MISSING node). 'All UTF-8 texts' is realised as all token strings up to the stated length over a 36-token alphabet plus every single-point damage of every seed program; longer texts and other byte alphabets are outside the bound."
CHECKS.update({
    "C07": dict(cat="fault_enumeration", text="Every single-point damage (delete, duplicate, swap, insert each of 31 tokens at each gap, truncate at every byte) of every seed program and all token strings up to the length bound, with surrounding-whitespace variants; for every text the grammar rejects: byte-identical pass-through, contains_error, `nima test` says Fail/1, set/rm refuse for every selector kind (a, a.b, @a, @@a, @a.b), the text is refused as a VALUE without touching the document, the same through parse_file; plus double faults (a trailing formals comma, which the gate tolerates, combined with every single-point damage).", ref="DESIGN.md 2/C07", note=TEXT_NOTE, technique="exhaustive fault enumeration (all single-point damages of a seed corpus + all short token strings) on the real implementation"),
    "C20": dict(cat="exploration", text="(a) the C07 text spaces with the oracle 'returns or raises ValueError'; (b) every nesting family (each composite construct nested in each of its own holes around a leaf, a multi-line set, with the nested program on the next line at every level, and with 120-character leaves that cross the renderer's only width threshold; period-2 families) to depth 12 (thorough 18), measured by a deterministic count of rebuild() invocations: calls(2d) <= 16*calls(d), the last two step-2 ratios not both >= 1.9, cap 2M calls.", ref="DESIGN.md 2/C20", note=TEXT_NOTE + " Growth is judged on call counts, not wall time; families are those of the catalogue.", technique="exhaustive enumeration of short texts and of nesting families x depth, deterministic call-count growth oracle"),
})

CHECKS.update({
    "C02": dict(cat="exploration", text="All derivations of a canonical-layout printer for the package-file idiom (header comment, lambda head, let block, body set / call / rec call, 22 member kinds incl. nested sets, comment-only lists in four positions, a let-with-call value, non-ASCII strings, call arguments, lists, attrpaths, inherit, with/if values, indented strings, own-line / end-of-line / block comments, single blank lines, chains of 2-4 directly nested let blocks) up to 3 (thorough 4) members and 2 decorations: parse -> rebuild must return the identical bytes and `nima test` must say OK.", ref="DESIGN.md 2/C02", note="nixfmt is not installed: canonicity is defined by the printer in nixmc/props/c02.py, each production anchored to a nixfmt-validated literal of the repository's own tests or to an RFC 0166 paragraph (table in the module docstring). Multi-line formals (trailing comma) are syntax errors for the pinned grammar and only exercise pass-through.", technique="bounded-exhaustive enumeration of the derivations of a reference printer (grammar-based), byte-identity oracle"),
})

NOT_YET = {
}


def main():
    props = [json.loads(l) for l in open(os.path.join(VERIF, "properties.jsonl"))]
    checks = []
    na = []
    for p in props:
        pid = p["id"]
        c = CHECKS.get(pid)
        if c is None:
            na.append({"property_id": pid, "reason": NOT_YET.get(pid, "check not built yet in this session (planned, see DESIGN.md section 2); not claimed until its explorer exists")})
            continue
        checks.append(
            {
                "property_id": pid,
                "quick_cmd": f"./check {pid} quick",
                "thorough_cmd": f"./check {pid} thorough",
                "evidence_file": f"/verif/evidence/{pid}.json",
                "replay_cmd_template": "./check --replay {path}",
                "engine": "nixmc",
                "level_claimed": {"category": c["cat"], "text": c["text"], "design_ref": c["ref"]},
                "level_note": c["note"],
                "technique": c["technique"],
            }
        )
    man = {
        "version": 1,
        "setup_cmd": "./check --selftest",
        "hooks": {
            "guard": "NIMA_VERIF",
            "enable": "no source hooks are needed: all observation is done from outside (module globals, sys.monitoring, wrappers installed by the harness); ./check exports NIMA_VERIF=1 for uniformity",
            "baseline_off_cmd": "cd /repo && env -u NIMA_VERIF /venv/bin/python -m pytest -ra -q -p no:cacheprovider --timeout=900 --continue-on-collection-errors",
            "source_commits": [],
            "add_only": True,
        },
        "engines": [
            {
                "name": "nixmc",
                "path": "/verif/nixmc",
                "serves_properties": [c["property_id"] for c in checks],
                "kind_free_text": "hand-written explicit-state / stateless explorers in Python running the real library: E1 syntax-space (gap) explorer, E2 edit-history BFS, E3 thread-schedule explorer with preemption bounding; reference models and CST observers independent of nix_manipulator",
            }
        ],
        "checks": checks,
        "not_applicable": na,
        "notes": "All checks import nix_manipulator from /repo's working tree (PYTHONPATH, no build step, no caches). known_findings.json lists genuine defects of the pinned tree by minimal failing input; fixed: entries record repaired ones.",
    }
    out = os.path.join(VERIF, "MANIFEST.json")
    json.dump(man, open(out, "w"), indent=1, ensure_ascii=False)
    r = subprocess.run(
        ["python3-vt", "-c", "import json,jsonschema,sys; jsonschema.validate(json.load(open(sys.argv[1])), json.load(open('/root/.vp/MANIFEST.schema.json'))); print('MANIFEST valid:', len(json.load(open(sys.argv[1]))['checks']), 'checks')", out],
        capture_output=True, text=True,
    )
    print(r.stdout, r.stderr)
    return r.returncode


if __name__ == "__main__":
    sys.exit(main())
