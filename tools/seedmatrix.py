#!/venv/bin/python
"""tools/seedmatrix.py [tier] [seed-id-prefix ...]: run each seeded defect against its own property's check
(and print the verdict), updating seeded/<id>/meta.json 'detected_by'."""
import json, os, subprocess, sys
tier = sys.argv[1] if len(sys.argv) > 1 else "quick"
pref = sys.argv[2:]
root = "/verif/seeded"
for sid in sorted(os.listdir(root)):
    if pref and not any(sid.startswith(p) for p in pref):
        continue
    d = os.path.join(root, sid)
    meta = json.load(open(os.path.join(d, "meta.json")))
    props = [meta["property"]] + meta.get("also_check", [])
    r = subprocess.run(["/verif/tools/seedtest.py", os.path.join(d, "patch.diff"), tier, *props], capture_output=True, text=True)
    lines = [l for l in r.stdout.splitlines() if l.split(" ")[0] in ("DETECTED", "MISSED", "ERROR", "PATCH-DOES-NOT-APPLY")]
    print(sid, "|", " ; ".join(lines))
    first = [l.strip() for l in r.stdout.splitlines() if l.strip().startswith("class=")][:1]
    meta.setdefault("detection", {})[tier] = {"verdicts": lines, "first_violation": first[0][:300] if first else None}
    meta["detected_by"] = sorted({l.split()[1] for t in meta["detection"].values() for l in t["verdicts"] if l.startswith("DETECTED")})
    json.dump(meta, open(os.path.join(d, "meta.json"), "w"), indent=1)
