#!/venv/bin/python
"""Regenerate DESIGN.md section 6.5 (between the seeds:begin / seeds:end markers) from seeded/*/meta.json.

usage: tools/seedtable.py [--print]   (default: rewrite DESIGN.md in place)
"""
import collections, json, os, re, sys

ROOT = "/verif/seeded"
rows = []
stats = collections.Counter()
undetected = []
for sid in sorted(os.listdir(ROOT)):
    m = json.load(open(os.path.join(ROOT, sid, "meta.json")))
    det = m.get("detection", {})

    def v(t):
        if t not in det:
            return "not run"
        out = []
        for x in det[t]["verdicts"]:
            mm = re.match(r"(DETECTED|MISSED|ERROR\S*) (C\d+) \w+ violations=(\d+)", x)
            out.append(f"{mm.group(2)}: {'**detected**' if mm.group(1) == 'DETECTED' else mm.group(1).lower()}" if mm else x)
        return "; ".join(out) or "?"

    q = det.get("quick", {}).get("verdicts", [])
    own = [x for x in q if f" {m['property']} " in x]
    own_hit = any(x.startswith("DETECTED") for x in own)
    any_hit = any(x.startswith("DETECTED") for x in q)
    stats["seeds"] += 1
    stats["own" if own_hit else ("other" if any_hit else "none")] += 1
    if not any_hit:
        undetected.append(sid)
    rows.append(f"| {sid} | {m.get('summary', '')} | {v('quick')} |")

wave = collections.Counter(s.split("-")[1] for s in os.listdir(ROOT))
text = []
text.append(f"{stats['seeds']} seeded changes (waves {', '.join(sorted(wave))}; {', '.join(f'{k}: {n}' for k, n in sorted(wave.items()))}), each written by an independent sub-agent that saw only the property text and a scratch worktree, each confirmed by me in a scratch worktree (patch applies to /repo HEAD, the 340-test baseline still passes, the agent's demo passes on the unchanged tree and fails with the patch).")
text.append("")
text.append(f"At the quick tier **{stats['own']}** are detected by the check of the property they were written against, **{stats['other']}** only by the check of a neighbouring property (named in the row), **{stats['none']}** by none" + (f" ({', '.join(undetected)}; discussed below)." if undetected else "."))
text.append("")
text.append("| seed | what the change does / what it needs to manifest | quick-tier verdicts (`tools/seedmatrix.py quick`) |")
text.append("|---|---|---|")
text += rows
block = "\n".join(text)
if "--print" in sys.argv:
    print(block)
else:
    p = "/verif/DESIGN.md"
    s = open(p).read()
    a, b = "<!-- seeds:begin -->", "<!-- seeds:end -->"
    assert a in s and b in s, "markers missing in DESIGN.md"
    s = s[: s.index(a) + len(a)] + "\n" + block + "\n" + s[s.index(b) :]
    open(p, "w").write(s)
    print(f"DESIGN.md section 6.5 rewritten: {stats}")
