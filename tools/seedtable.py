#!/venv/bin/python
"""Print a markdown table of the seeded defects and which checks detect them (from seeded/*/meta.json)."""
import json, os
root = "/verif/seeded"
print("| seed | property | what it needs to manifest (from the sub-agent's notes) | quick | thorough |")
print("|---|---|---|---|---|")
for sid in sorted(os.listdir(root)):
    m = json.load(open(os.path.join(root, sid, "meta.json")))
    det = m.get("detection", {})
    def v(t):
        if t not in det: return "–"
        return "; ".join(x.replace(" violations=", " (") + ")" if "violations=" in x else x for x in det[t]["verdicts"]) or "?"
    print(f"| {sid} | {m['property']} | {m.get('summary', m.get('needs_to_manifest',''))[:160]} | {v('quick')} | {v('thorough')} |")
