#!/venv/bin/python
"""Run checks against a seeded defect:  tools/seedtest.py <patch.diff> <tier> <PROP> [<PROP> ...]

Applies the patch to a scratch worktree of /repo's HEAD (outside /repo and /verif), runs the given checks
with NIXMC_REPO pointing at it (evidence/replays go to a scratch dir), prints one line per check:
DETECTED (exit 1 + VIOLATION line) or MISSED (exit 0), and removes the worktree.
"""
import hashlib, os, shutil, subprocess, sys, tempfile

patch, tier, props = os.path.abspath(sys.argv[1]), sys.argv[2], sys.argv[3:]
tag = hashlib.sha1(patch.encode()).hexdigest()[:8]
wt = f"/tmp/nixmc-seed-{tag}"
out = f"/tmp/nixmc-seed-out-{tag}"
subprocess.run(["git", "-C", "/repo", "worktree", "remove", "--force", wt], capture_output=True)
subprocess.run(["git", "-C", "/repo", "worktree", "add", "--detach", wt, "HEAD"], check=True, capture_output=True)
try:
    r = subprocess.run(["git", "-C", wt, "apply", "--3way", patch], capture_output=True, text=True)
    if r.returncode != 0:
        r = subprocess.run(["git", "-C", wt, "apply", patch], capture_output=True, text=True)
    if r.returncode != 0:
        print("PATCH-DOES-NOT-APPLY", r.stderr[:300])
        sys.exit(2)
    for p in props:
        env = dict(os.environ, NIXMC_REPO=wt, NIXMC_OUT=out)
        r = subprocess.run(["/verif/check", p, tier], capture_output=True, text=True, env=env, cwd="/verif")
        viol = [l for l in r.stdout.splitlines() if l.startswith("VIOLATION")]
        verdict = "DETECTED" if r.returncode == 1 and viol else ("MISSED" if r.returncode == 0 else f"ERROR rc={r.returncode}")
        print(f"{verdict} {p} {tier} violations={len(viol)}")
        if viol:
            lines = r.stdout.splitlines()
            i = lines.index(viol[0])
            print("   ", viol[0])
            print("   ", lines[i + 1][:300] if i + 1 < len(lines) else "")
        if verdict.startswith("ERROR"):
            print(r.stdout[-800:], r.stderr[-1500:])
finally:
    subprocess.run(["git", "-C", "/repo", "worktree", "remove", "--force", wt], capture_output=True)
    shutil.rmtree(out, ignore_errors=True)
