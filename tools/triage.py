#!/venv/bin/python
"""Offline triage: turn collected unlisted failures into known_findings.json entries.

usage: tools/triage.py [--write] collected1.json [collected2.json ...]

Every failure is assigned to a finding id by tools/findings_def.py (explicit overrides first,
else `<prop>-<group>`); findings_def.META supplies summary / root cause / why-not-fixed text.
Without --write only a summary is printed.  The check itself never writes known_findings.json.
"""
import collections
import json
import os
import re
import sys

HERE = os.path.dirname(os.path.abspath(__file__))
sys.path.insert(0, HERE)
import findings_def as D  # noqa

KF = os.path.join(os.path.dirname(HERE), "known_findings.json")


def main():
    args = sys.argv[1:]
    write = "--write" in args
    prune = "--prune" in args  # drop listed cases of the given properties that were not observed (needs the .observed files of ALL tiers)
    files = [a for a in args if not a.startswith("--")]
    data = json.load(open(KF)) if os.path.exists(KF) else {"findings": [], "fixed": []}
    by_id = {f["id"]: f for f in data["findings"]}
    added = collections.Counter()
    unassigned = []
    for fn in files:
        for f in json.load(open(fn)):
            fid = D.assign(f)
            if fid is None:
                unassigned.append(f)
                continue
            ent = by_id.get(fid)
            if ent is None:
                meta = D.meta_for(fid, f)
                ent = {"id": fid, "property": f["prop"], **meta, "cases": []}
                by_id[fid] = ent
                data["findings"].append(ent)
            if ent.get("rule"):
                continue
            if f["sig"] not in ent["cases"]:
                ent["cases"].append(f["sig"])
                added[fid] += 1
    if prune:
        observed = collections.defaultdict(set)
        for fn in files:
            if os.path.exists(fn + ".observed"):
                o = json.load(open(fn + ".observed"))
                observed[o["property"]] |= set(o["observed"])
            for f in json.load(open(fn)):
                observed[f["prop"]].add(f["sig"])
        for ent in data["findings"]:
            if ent["property"] in observed and not ent.get("rule"):
                before = len(ent["cases"])
                ent["cases"] = [c for c in ent["cases"] if c in observed[ent["property"]]]
                if before != len(ent["cases"]):
                    print(f"pruned {before - len(ent['cases'])} cases from {ent['id']}")
        data["findings"] = [e for e in data["findings"] if e.get("rule") or e["cases"] or e["property"] not in observed]
    for fid, n in sorted(added.items()):
        print(f"{n:5d} new cases -> {fid}")
    print(f"unassigned: {len(unassigned)}")
    for f in unassigned[:50]:
        print("   ", f["prop"], f["cls"], f["group"], f["detail"][:160])
    if write:
        for ent in data["findings"]:
            ent["cases"] = sorted(set(ent.get("cases", [])))
        data["findings"].sort(key=lambda e: (e["property"], e["id"]))
        json.dump(data, open(KF, "w"), indent=1, ensure_ascii=False)
        print("written", KF, "findings:", len(data["findings"]), "cases:", sum(len(e["cases"]) for e in data["findings"]))


if __name__ == "__main__":
    main()
